package vc

import (
	"sort"
	"go/ast"
	"runtime/debug"
	"os"
	"fmt"
	"regexp"
	"go/constant"
	"go/token"
	"go/types"
	"math/big"
	"strings"

	"golang.org/x/tools/go/ssa"
)

// Options control one verification run of a function.
type Options struct {
	NoCtxSkip bool // keep the whole script as context of return obligations
	NoAutoFrame bool // do not add the automatic frame invariants to loops
	Sweep bool // generate no-panic obligations instead of assuming absence of run-time panics
}

// Exec verifies one function.
type Exec struct {
	P    *Program
	Out  *Script
	Top  *ssa.Function
	Ctr  *Contract
	Opt  Options
	Unsupported []string
	entry  *State
	inlineDepth int
	siteCount map[string]int
	writes *[]writeRec // non-nil during a dry run of a loop body
	boxed  map[string]bool
	heapSorts map[string]Sort
	curFrame *Frame
	lastObs  []ObsTerm
	snapCache map[string]string
	boxInfo  map[string]boxRec
	ctxPkg   *types.Package
	defs     map[string]storeDef // heap version symbol -> its defining store
	SpecModel map[string]string // refinement only: uninterpreted interface spec function -> the implementation's defined counterpart
	mapKeyLen map[string]int64 // dom heaps of Go maps keyed by an integer array type -> array length
	allocSyms map[string]bool
	sliceBase map[string]string // slice symbol -> base term
	rowDefs  map[string]storeDef // heap version symbol -> element store in the written row
	sliceParts map[string][4]string
	heapValT map[string]types.Type // heap array name -> Go type of the stored values
	reveal   map[string]bool
	subDone  map[string]bool
	subIDs   map[string]int
	subLine  map[string]int
}

type storeDef struct {
	prev, ref, val string
}

type boxRec struct {
	ty  types.Type
	ref string
}

type writeRec struct {
	heap string
	ref  string // "" = whole array
}

type retInfo struct {
	guard string
	val   Val
	st    *State
	pos   string
	ctxLen int // script length when the return was executed
}

type deferred struct {
	guard string
	call  *ssa.Defer
	set   string // non-empty: a defer inside a loop, collected in this state variable (set of keys)
	ksort Sort
}

// Frame is one function activation.
type Frame struct {
	fn     *ssa.Function
	prefix string
	vals   map[ssa.Value]Val
	guard  map[*ssa.BasicBlock]string
	out    map[*ssa.BasicBlock]*State
	edges  map[[2]int]string
	defers []deferred
	rets   []retInfo
	depth  int
	ctr    *Contract
	entryState *State // state at function entry (for old())
	loopOrd map[*ssa.BasicBlock]int
	autoLoops map[int]*LoopSpec // automatic annotations of loops the contract does not mention
	remap     map[int]*LoopSpec // actual loop ordinal -> annotation of the contract (after following "over" tags)
	ctrOrd    map[int]int       // actual loop ordinal -> ordinal the contract uses for that loop (for _n<k>, _i<k>)
	names  map[string][]nameCand
	top    bool
	iters  map[ssa.Value]string // map iterator -> visited state name
	headState map[*ssa.BasicBlock]*State
	args   []Val
	allow  map[string]*frameAllowed // what the function's modifies clauses allow to change (evaluated once, at entry)
	loopMods map[*ssa.BasicBlock][]string // heaps havocked at each loop head (automatic frame invariants)
}

type nameCand struct {
	v      ssa.Value
	isAddr bool
	block  *ssa.BasicBlock
}

type unsupportedErr string

func (e *Exec) unsupported(f string, a ...any) {
	if os.Getenv("GOVC_DEBUG_STACK") != "" {
		debug.PrintStack()
	}
	panic(unsupportedErr(fmt.Sprintf(f, a...)))
}

// ---------------------------------------------------------------- types and sorts

func (e *Exec) qual(p *types.Package) string {
	parts := strings.Split(p.Path(), "/")
	if len(parts) >= 2 {
		return parts[len(parts)-2] + "/" + parts[len(parts)-1]
	}
	return p.Path()
}

var aliasRE = regexp.MustCompile(`\b(byte|rune|any)\b`)

func (e *Exec) typeName(t types.Type) string {
	s := types.TypeString(t, e.qual)
	return aliasRE.ReplaceAllStringFunc(s, func(m string) string {
		switch m {
		case "byte":
			return "uint8"
		case "rune":
			return "int32"
		}
		return "interface{}"
	})
}

func (e *Exec) sortOf(t types.Type) Sort {
	switch u := t.Underlying().(type) {
	case *types.Basic:
		switch {
		case u.Info()&types.IsBoolean != 0:
			return SBool
		case u.Info()&types.IsString != 0:
			return SStr
		default:
			return SInt
		}
	case *types.Slice:
		return SSlice
	case *types.Array:
		return ArrSort(SInt, e.sortOf(u.Elem()))
	case *types.Interface:
		return SAny
	case *types.TypeParam:
		return SAny
	}
	return SInt
}

func (e *Exec) zeroOf(t types.Type) string {
	switch u := t.Underlying().(type) {
	case *types.Basic:
		switch {
		case u.Info()&types.IsBoolean != 0:
			return "false"
		case u.Info()&types.IsString != 0:
			return `""`
		}
		return "0"
	case *types.Slice:
		return "(mk_slice 0 0 0 0)"
	case *types.Array:
		return "((as const " + string(e.sortOf(t)) + ") " + e.zeroOf(u.Elem()) + ")"
	case *types.Interface, *types.TypeParam:
		return "anynil"
	case *types.Struct:
		return "0" // the zero struct token
	}
	return "0"
}

// rangeFact returns the typing fact for a value of Go type t (true if none).
func (e *Exec) rangeFact(x string, t types.Type, st *State) string {
	if ii, ok := intInfoOf(t); ok {
		if b, isB := t.Underlying().(*types.Basic); isB && b.Info()&types.IsInteger != 0 {
			return ii.inRange(x)
		}
	}
	switch t.Underlying().(type) {
	case *types.Pointer, *types.Map, *types.Chan, *types.Signature:
		return "(and (>= " + x + " (- 1000)) (<= " + x + " " + e.top(st) + "))"
	case *types.Slice:
		return "(and (>= "+e.sbase(x)+" (- 1000)) (<= "+e.sbase(x)+" " + e.top(st) + ") (>= "+e.soff(x)+" 0) (>= "+e.slen(x)+" 0) (<= "+e.slen(x)+" "+e.scap(x)+") (<= "+e.scap(x)+" 4611686018427387904) (=> (= "+e.sbase(x)+" 0) (= "+e.scap(x)+" 0)))"
	}
	return "true"
}

// ---------------------------------------------------------------- state access

func (e *Exec) get(st *State, name string, sort Sort) string {
	if v, ok := st.H[name]; ok {
		return v
	}
	if e.heapSorts == nil {
		e.heapSorts = map[string]Sort{}
	}
	e.heapSorts[name] = sort
	if _, have := e.Out.declared[Sym(name+"!0")]; have {
		return Sym(name + "!0")
	}
	e.Out.BeginGlobal()
	sym := e.Out.Declare(name+"!0", sort)
	if name != "$top" {
		e.wellFormed(name, sym, e.entry)
	}
	e.Out.EndGlobal()
	return sym
}

func (e *Exec) set(st *State, name string, sort Sort, term string) string {
	if e.heapSorts == nil {
		e.heapSorts = map[string]Sort{}
	}
	e.heapSorts[name] = sort
	sym := e.Out.Define(e.Out.FreshName(name), sort, term)
	st.H[name] = sym
	return sym
}

func (e *Exec) havoc(st *State, name string, sort Sort) string {
	if e.heapSorts == nil {
		e.heapSorts = map[string]Sort{}
	}
	e.heapSorts[name] = sort
	sym := e.Out.Fresh(name, sort)
	st.H[name] = sym
	if name != "$top" {
		e.wellFormed(name, sym, st)
	}
	return sym
}

func (e *Exec) top(st *State) string { return e.get(st, "$top", SInt) }

func (e *Exec) recordWrite(heap, ref string) {
	// normalise "(s_base <slice symbol>)" of slices made in this function to their allocation symbol
	if strings.HasPrefix(ref, "(s_base ") {
		if b, ok := e.sliceBase[ref[len("(s_base "):len(ref)-1]]; ok {
			ref = b
		}
	}
	if e.writes != nil {
		*e.writes = append(*e.writes, writeRec{heap, ref})
	}
}

// write1 stores val at ref in a one-level heap array and remembers the definition for load forwarding.
func (e *Exec) write1(st *State, name string, sort Sort, ref, val string) {
	prev := e.get(st, name, sort)
	sym := e.set(st, name, sort, Sto(prev, ref, val))
	if e.defs == nil {
		e.defs = map[string]storeDef{}
	}
	e.defs[sym] = storeDef{prev, ref, val}
	e.recordWrite(name, ref)
}

// read1 reads ref from a heap version, forwarding a syntactically identical store.
func (e *Exec) read1(heapSym, ref string) string {
	for i := 0; i < 64; i++ {
		d, ok := e.defs[heapSym]
		if !ok {
			break
		}
		if _, live := e.Out.declared[heapSym]; !live {
			break
		}
		if d.ref == ref {
			return d.val
		}
		// only skip stores to provably different references (distinct allocation symbols / numerals)
		if !e.distinctRefs(d.ref, ref) {
			break
		}
		heapSym = d.prev
	}
	return Sel(heapSym, ref)
}

func (e *Exec) distinctRefs(a, b string) bool {
	if a == b {
		return false
	}
	isNum := func(x string) bool {
		if x == "" {
			return false
		}
		for _, c := range x {
			if c < '0' || c > '9' {
				return strings.HasPrefix(x, "(- ") && len(x) > 4
			}
		}
		return true
	}
	if isNum(a) && isNum(b) {
		return true
	}
	if e.allocSyms[a] && e.allocSyms[b] {
		return true
	}
	if (e.allocSyms[a] && isNum(b) && strings.HasPrefix(b, "(- ")) || (e.allocSyms[b] && isNum(a) && strings.HasPrefix(a, "(- ")) {
		return true // fresh allocations are positive, global bases negative
	}
	return false
}

// read2 reads element idx of row base, forwarding a syntactically identical element store.
func (e *Exec) read2(heapSym, base, idx string) string {
	if d, ok := e.defs[heapSym]; ok && d.ref == base {
		if rd, ok := e.rowDefs[heapSym]; ok && rd.ref == idx {
			if _, live := e.Out.declared[heapSym]; live {
				return rd.val
			}
		}
	}
	return Sel(e.read1(heapSym, base), idx)
}

// alloc returns a fresh reference and bumps $top.
func (e *Exec) alloc(st *State) string {
	t := e.top(st)
	r := e.Out.Define(e.Out.FreshName("ref"), SInt, "(+ "+t+" 1)")
	e.set(st, "$top", SInt, r)
	if e.allocSyms == nil {
		e.allocSyms = map[string]bool{}
	}
	e.allocSyms[r] = true
	return r
}

func (e *Exec) fieldHeap(structT types.Type, idx int) (string, Sort, types.Type) {
	st := structT.Underlying().(*types.Struct)
	f := st.Field(idx)
	name := "H$" + e.typeName(structT) + "." + f.Name()
	e.noteHeapT(name, f.Type())
	return name, ArrSort(SInt, e.sortOf(f.Type())), f.Type()
}

func (e *Exec) noteHeapT(name string, t types.Type) {
	if e.heapValT == nil {
		e.heapValT = map[string]types.Type{}
	}
	e.heapValT[name] = t
}

func (e *Exec) cellHeap(t types.Type) (string, Sort) {
	e.noteHeapT("C$"+e.typeName(t), t)
	return "C$" + e.typeName(t), ArrSort(SInt, e.sortOf(t))
}

func (e *Exec) elemHeap(t types.Type) (string, Sort) {
	e.noteHeapT("E$"+e.typeName(t), t)
	return "E$" + e.typeName(t), ArrSort(SInt, ArrSort(SInt, e.sortOf(t)))
}

// wellFormed asserts the typing invariant of a freshly introduced heap version: every stored reference or slice
// points at or below the current allocation top (and slices have consistent headers).
func (e *Exec) wellFormed(name, sym string, st *State) {
	if n, isArrKey := e.mapKeyLen[name]; isArrKey {
		// keys of a Go map with an array key type are array values (normalised)
		r, k := e.Out.FreshName("wf$r"), e.Out.FreshName("wf$k")
		e.Out.Assert("(forall ((" + r + " Int) (" + k + " (Array Int Int))) (! (=> (select (select " + sym + " " + r + ") " + k + ") (arrnorm " + k + " " + IntLit(n) + ")) :pattern ((select (select " + sym + " " + r + ") " + k + "))))")
	}
	t, ok := e.heapValT[name]
	if !ok {
		return
	}
	guardTop := true
	switch u := t.Underlying().(type) {
	case *types.Pointer, *types.Map, *types.Slice, *types.Chan:
	case *types.Basic:
		if u.Info()&types.IsInteger == 0 {
			return
		}
		guardTop = false // integer ranges hold for every cell
	default:
		return
	}
	if !guardTop {
		r := e.Out.FreshName("wf$r")
		if strings.HasPrefix(name, "E$") || strings.HasPrefix(name, "M$") {
			i := e.Out.FreshName("wf$i")
			_, vs, _ := arrayParts(e.heapSorts[name])
			ks, _, _ := arrayParts(vs)
			v := Sel(Sel(sym, r), i)
			e.Out.Assert("(forall ((" + r + " Int) (" + i + " " + string(ks) + ")) (! " + e.rangeFact(v, t, st) + " :pattern (" + v + ")))")
			return
		}
		v := Sel(sym, r)
		e.Out.Assert("(forall ((" + r + " Int)) (! " + e.rangeFact(v, t, st) + " :pattern (" + v + ")))")
		return
	}
	r := e.Out.FreshName("wf$r")
	if strings.HasPrefix(name, "E$") || strings.HasPrefix(name, "M$") {
		i := e.Out.FreshName("wf$i")
		_, vs2, _ := arrayParts(e.heapSorts[name])
		ks2, _, _ := arrayParts(vs2)
		v := Sel(Sel(sym, r), i)
		if ks2 != SInt {
			e.Out.Assert("(forall ((" + r + " Int) (" + i + " " + string(ks2) + ")) (! (=> (<= (owner " + r + ") " + e.top(st) + ") " + e.rangeFact(v, t, st) + ") :pattern (" + v + ")))")
			return
		}
		// only allocated rows are constrained: unallocated space stands for whatever a callee allocates later
		e.Out.Assert("(forall ((" + r + " Int) (" + i + " Int)) (! (=> (<= (owner " + r + ") " + e.top(st) + ") " + e.rangeFact(v, t, st) + ") :pattern (" + v + ")))")
		return
	}
	v := Sel(sym, r)
	e.Out.Assert("(forall ((" + r + " Int)) (! (=> (<= (owner " + r + ") " + e.top(st) + ") " + e.rangeFact(v, t, st) + ") :pattern (" + v + ")))")
}

// wellFormedRow states the well-formedness facts of one havocked row (row-wise loop havoc).
func (e *Exec) wellFormedRow(name, ref, row string, st *State) {
	t, ok := e.heapValT[name]
	if !ok {
		return
	}
	guard := "(<= (owner " + ref + ") " + e.top(st) + ")"
	switch t.Underlying().(type) {
	case *types.Pointer, *types.Map, *types.Chan:
		// (integer ranges and slice headers of havocked rows are left unconstrained: the extra quantified facts made
		// unrelated proofs unstable, and leaving them out only weakens what is assumed; loop invariants can state
		// allocated(x[j]) where a proof needs it)
	default:
		return
	}
	if strings.HasPrefix(name, "E$") || strings.HasPrefix(name, "M$") {
		_, vs, _ := arrayParts(e.heapSorts[name])
		ks, _, _ := arrayParts(vs)
		i := e.Out.FreshName("wf$i")
		v := Sel(row, i)
		e.Out.Assert("(forall ((" + i + " " + string(ks) + ")) (! " + Imp(guard, e.rangeFact(v, t, st)) + " :pattern (" + v + ")))")
		return
	}
	e.Out.Assert(Imp(guard, e.rangeFact(row, t, st)))
}

func (e *Exec) mapHeaps(m *types.Map) (dom, val string, ds, vs Sort) {
	k, v := e.sortOf(m.Key()), e.sortOf(m.Elem())
	n := "M$" + e.typeName(m.Key()) + "$" + e.typeName(m.Elem())
	e.noteHeapT(n+"$val", m.Elem())
	if arr, ok := m.Key().Underlying().(*types.Array); ok && k == ArrSort(SInt, SInt) {
		if e.mapKeyLen == nil {
			e.mapKeyLen = map[string]int64{}
		}
		e.mapKeyLen[n+"$dom"] = arr.Len()
	}
	return n + "$dom", n + "$val", ArrSort(SInt, ArrSort(k, SBool)), ArrSort(SInt, ArrSort(k, v))
}

// loadAddr reads through an address in the given state.
func (e *Exec) loadAddr(a *Addr, st *State) string {
	if a.Kind == "field" && a.Ty != nil && isStructT(a.Ty) {
		return e.loadStruct(a.Ty, e.subRef(a.Heap, a.Ref), st)
	}
	switch a.Kind {
	case "field", "cell":
		return e.read1(e.get(st, a.Heap, a.HS), a.Ref)
	case "elem":
		return e.read2(e.get(st, a.Heap, a.HS), a.Ref, a.Idx)
	case "row":
		return e.read1(e.get(st, a.Heap, a.HS), a.Ref)
	case "global":
		return e.get(st, a.Heap, a.HS)
	case "arr":
		return Sel(e.loadAddr(a.In, st), a.Idx)
	}
	e.unsupported("load through address kind %s", a.Kind)
	return ""
}

func (e *Exec) storeAddr(a *Addr, st *State, v string) {
	if a.Kind == "field" && a.Ty != nil && isStructT(a.Ty) {
		e.storeStruct(a.Ty, e.subRef(a.Heap, a.Ref), v, st)
		return
	}
	switch a.Kind {
	case "field", "cell", "row":
		e.write1(st, a.Heap, a.HS, a.Ref, v)
	case "elem":
		h := e.get(st, a.Heap, a.HS)
		row := e.read1(h, a.Ref)
		e.write1(st, a.Heap, a.HS, a.Ref, Sto(row, a.Idx, v))
		if e.rowDefs == nil {
			e.rowDefs = map[string]storeDef{}
		}
		e.rowDefs[st.H[a.Heap]] = storeDef{row, a.Idx, v}
	case "global":
		e.set(st, a.Heap, a.HS, v)
		e.recordWrite(a.Heap, "")
	case "arr":
		e.storeAddr(a.In, st, Sto(e.loadAddr(a.In, st), a.Idx, v))
	default:
		e.unsupported("store through address kind %s", a.Kind)
	}
}

// reify turns an address into an Int pseudo-reference (for passing interior pointers to calls).
func (e *Exec) reify(v Val) string {
	if v.Addr == nil {
		return v.T
	}
	a := v.Addr
	switch a.Kind {
	case "field":
		return e.subRef(a.Heap, a.Ref)
	case "cell", "row":
		f := e.Out.DeclareFun("addr$"+a.Heap, []Sort{SInt}, SInt)
		return App(f, a.Ref)
	case "elem":
		f := e.Out.DeclareFun("addr$"+a.Heap, []Sort{SInt, SInt}, SInt)
		return App(f, a.Ref, a.Idx)
	case "global":
		return e.Out.Declare("addr$"+a.Heap, SInt)
	}
	return e.Out.Fresh("addr", SInt)
}

// ---------------------------------------------------------------- running a function

// VerifyFunction generates all obligations for fn against its contract.
func (e *Exec) VerifyFunction(fn *ssa.Function, ctr *Contract) (err error) {
	defer func() {
		if r := recover(); r != nil {
			if u, ok := r.(unsupportedErr); ok {
				e.Unsupported = append(e.Unsupported, string(u))
				err = fmt.Errorf("unsupported: %s", string(u))
				return
			}
			panic(r)
		}
	}()
	e.Top, e.Ctr = fn, ctr
	if ctr != nil {
		e.reveal = ctr.Reveal
		e.Out.Focus = ctr.Focus
	}
	e.siteCount = map[string]int{}
	e.boxed = map[string]bool{}
	e.entry = &State{H: map[string]string{}}
	e.emitSpecPrelude()
	st := e.entry.clone()
	e.Out.Assert("(>= " + e.top(st) + " 0)")
	if ctr != nil && ctr.Calls != nil {
		e.Out.Assert(Eq(e.get(e.entry, "$calls$"+ctr.Calls.Fun, SInt), "0"))
	}
	if ctr != nil {
		for i := range ctr.MustCall {
			e.Out.Assert(Eq(e.get(e.entry, fmt.Sprintf("$calls$must%d", i), SInt), "0"))
		}
	}
	// parameters
	var args []Val
	for _, p := range fn.Params {
		args = append(args, e.freshTyped("p$"+p.Name(), p.Type(), st))
	}
	var binds []Val
	for _, fv := range fn.FreeVars {
		// free variables are pointers to captured variables
		binds = append(binds, e.freshTyped("fv$"+fv.Name(), fv.Type(), st))
	}
	// the free variables of a closure are distinct variables: their cells do not alias
	for i := range binds {
		for j := i + 1; j < len(binds); j++ {
			if binds[i].T != "" && binds[j].T != "" && binds[i].S == binds[j].S {
				e.Out.Assert(Not(Eq(binds[i].T, binds[j].T)))
			}
		}
		if binds[i].T != "" && binds[i].S == SInt {
			e.Out.Assert(Not(Eq(binds[i].T, "0")))
		}
	}
	fr := e.newFrame(fn, args, binds, 0, ctr)
	fr.top = true
	fr.entryState = e.entry
	// preconditions are assumed
	env := e.envForFunc(fr, st, e.entry, nil)
	if ctr != nil {
		for _, c := range ctr.Requires {
			t := e.evalBool(c, env)
			e.Out.Assert(t)
		}
	}
	res, exitSt, exitGuard := e.runFrame(fr, st, "true")
	endBody := len(e.Out.Lines)
	// obligations of one return statement do not need what was learnt from code that runs after it was reached
	addRet := func(o *Obligation, r retInfo) {
		if r.ctxLen > 0 && r.ctxLen < endBody && !e.Opt.NoCtxSkip {
			o.SkipFrom, o.SkipTo = r.ctxLen, endBody
		}
		e.Out.AddObl(o)
	}
	// vacuity: some return must be reachable
	e.Out.AddObl(&Obligation{Name: FuncKey(fn) + "/cover:return", Func: FuncKey(fn), Kind: "cover", Label: "return", Formula: Not(exitGuard), Expect: "sat", Text: "some return is reachable under the preconditions"})
	if ctr != nil {
		// one obligation per (return statement, ensures clause): the solver never has to split over return paths
		_ = res
		for k, r := range fr.rets {
			rv := r.val
			env2 := e.envForFunc(fr, r.st, e.entry, &rv)
			suffix := ""
			if len(fr.rets) > 1 {
				suffix = fmt.Sprintf("@r%d", k+1)
			}
			// reachability of this return: a refutable guard means the path is dead (dead code, or excluded by the
			// contracts); its negation canaries are then meaningless and are dropped by PostProcess
			addRet(&Obligation{Name: FuncKey(fn) + "/canary:reach" + suffix, Func: FuncKey(fn), Kind: "reach", Label: "reach" + suffix, Text: "return at " + r.pos + " is reachable",
				Formula: Not(r.guard), Expect: "sat"}, r)
			for i, mc := range ctr.MustCall {
				cnt := e.get(r.st, fmt.Sprintf("$calls$must%d", i), SInt)
				addRet(&Obligation{Name: FuncKey(fn) + "/mustcall:" + trimPkg(mc.Key) + "/once" + suffix, Func: FuncKey(fn), Kind: "calls", Label: "once", Text: mc.Key + " has been called exactly once when this return is reached", Src: mc.Src,
					Formula: Imp(r.guard, Eq(cnt, "1")), Inputs: e.obsInputs(fr)}, r)
			}
			if ctr.Calls != nil {
				cnt := e.get(r.st, "$calls$"+ctr.Calls.Fun, SInt)
				addRet(&Obligation{Name: FuncKey(fn) + "/calls:" + ctr.Calls.Fun + "/once" + suffix, Func: FuncKey(fn), Kind: "calls", Label: "once", Text: ctr.Calls.Fun + " has been called exactly once when this return is reached", Src: ctr.Calls.Src,
					Formula: Imp(r.guard, Eq(cnt, "1")), Inputs: e.obsInputs(fr)}, r)
			}
			for _, c := range ctr.ExitHints {
				t := e.evalBool(c, env2)
				addRet(&Obligation{Name: FuncKey(fn) + "/hint:exit:" + c.Label + suffix, Func: FuncKey(fn), Kind: "hint", Label: c.Label, Text: c.Text, Src: c.Src,
					Formula: Imp(r.guard, t), Inputs: e.obsInputs(fr), Obs: e.lastObs}, r)
				e.assume(r.guard, t)
			}
			for _, c := range ctr.Ensures {
				t := e.evalBool(c, env2)
				addRet(&Obligation{Name: FuncKey(fn) + "/ensures:" + c.Label + suffix, Func: FuncKey(fn), Kind: "ensures", Label: c.Label, Text: c.Text + "   [return at " + r.pos + "]", Src: c.Src,
					Formula: Imp(r.guard, t), Inputs: e.obsInputs(fr), Obs: e.lastObs}, r)
				// goal-directed vacuity guard: the negation of the clause must not be provable as well
				e.Out.AddObl(&Obligation{Name: FuncKey(fn) + "/canary:not-" + c.Label + suffix, Func: FuncKey(fn), Kind: "canary", Label: "not-" + c.Label, Text: "negation of ensures[" + c.Label + "] must not be provable on this return path (context consistency, goal-directed)",
					Formula: Imp(r.guard, Not(t)), Expect: "sat"})
			}
		}
		for k, r := range fr.rets {
			suffix := ""
			if len(fr.rets) > 1 {
				suffix = fmt.Sprintf("@r%d", k+1)
			}
			n0 := len(e.Out.Obls)
			e.frameObligations(fr, r.st, r.guard, env, suffix)
			if r.ctxLen > 0 && r.ctxLen < endBody && !e.Opt.NoCtxSkip {
				for _, o := range e.Out.Obls[n0:] {
					o.SkipFrom, o.SkipTo = r.ctxLen, endBody
				}
			}
		}
		_, _ = exitSt, exitGuard
	}
	// canary: 'false' at exit must fail
	e.Out.AddObl(&Obligation{Name: FuncKey(fn) + "/canary:false-at-exit", Func: FuncKey(fn), Kind: "canary", Label: "false", Formula: Imp(exitGuard, "false"), Expect: "sat", Text: "assert false at exit must not be provable"})
	return nil
}

func (e *Exec) obsInputs(fr *Frame) []string {
	out := e.inputTerms(fr)
	for _, o := range e.lastObs {
		out = append(out, o.Term)
	}
	return out
}

func (e *Exec) inputTerms(fr *Frame) []string {
	var out []string
	for _, a := range fr.args {
		if a.T != "" {
			out = append(out, a.T)
		}
	}
	return out
}

func (e *Exec) freshTyped(name string, t types.Type, st *State) Val {
	if _, isTuple := t.(*types.Tuple); isTuple {
		tup := t.(*types.Tuple)
		var vs []Val
		for i := 0; i < tup.Len(); i++ {
			vs = append(vs, e.freshTyped(fmt.Sprintf("%s.%d", name, i), tup.At(i).Type(), st))
		}
		return Val{Tup: vs, Ty: t}
	}
	s := e.sortOf(t)
	sym := e.Out.Fresh(name, s)
	e.Out.Assert(e.rangeFact(sym, t, st))
	if arr, ok := t.Underlying().(*types.Array); ok && e.sortOf(arr.Elem()) == SInt {
		// array values are normalised: zero outside their bounds (so that == on arrays is extensional equality)
		i := e.Out.FreshName("an$i")
		e.Out.Assert("(forall ((" + i + " Int)) (! (=> (or (< " + i + " 0) (>= " + i + " " + IntLit(arr.Len()) + ")) (= (select " + sym + " " + i + ") 0)) :pattern ((select " + sym + " " + i + "))))")
	}
	return Val{T: sym, S: s, Ty: t}
}

func (e *Exec) newFrame(fn *ssa.Function, args, binds []Val, depth int, ctr *Contract) *Frame {
	fr := &Frame{fn: fn, vals: map[ssa.Value]Val{}, guard: map[*ssa.BasicBlock]string{}, out: map[*ssa.BasicBlock]*State{},
		edges: map[[2]int]string{}, depth: depth, ctr: ctr, iters: map[ssa.Value]string{}, args: args}
	e.Out.fresh++
	fr.prefix = fmt.Sprintf("%s#%d.", fn.Name(), e.Out.fresh)
	for i, p := range fn.Params {
		if i < len(args) {
			fr.vals[p] = args[i]
		}
	}
	for i, fv := range fn.FreeVars {
		if i < len(binds) {
			fr.vals[fv] = binds[i]
		}
	}
	fr.buildNames()
	return fr
}

func isBackEdge(p, b *ssa.BasicBlock) bool { return b.Dominates(p) }

func rpo(fn *ssa.Function) []*ssa.BasicBlock {
	seen := map[*ssa.BasicBlock]bool{}
	var post []*ssa.BasicBlock
	var dfs func(b *ssa.BasicBlock)
	dfs = func(b *ssa.BasicBlock) {
		seen[b] = true
		for _, s := range b.Succs {
			if !seen[s] && !isBackEdge(b, s) {
				dfs(s)
			}
		}
		post = append(post, b)
	}
	if len(fn.Blocks) > 0 {
		dfs(fn.Blocks[0])
	}
	for i, j := 0, len(post)-1; i < j; i, j = i+1, j-1 {
		post[i], post[j] = post[j], post[i]
	}
	return post
}

// naturalLoop returns the blocks of the natural loop with header h.
func naturalLoop(h *ssa.BasicBlock) map[*ssa.BasicBlock]bool {
	loop := map[*ssa.BasicBlock]bool{h: true}
	var stack []*ssa.BasicBlock
	for _, p := range h.Preds {
		if isBackEdge(p, h) && !loop[p] {
			loop[p] = true
			stack = append(stack, p)
		}
	}
	for len(stack) > 0 {
		b := stack[len(stack)-1]
		stack = stack[:len(stack)-1]
		for _, p := range b.Preds {
			if !loop[p] {
				loop[p] = true
				stack = append(stack, p)
			}
		}
	}
	return loop
}

func isLoopHeader(b *ssa.BasicBlock) bool {
	for _, p := range b.Preds {
		if isBackEdge(p, b) {
			return true
		}
	}
	return false
}

// runFrame executes the function body; returns the merged result, state and exit guard.
func (e *Exec) runFrame(fr *Frame, st *State, guard string) (Val, *State, string) {
	fn := fr.fn
	if len(fn.Blocks) == 0 {
		e.unsupported("function %s has no body", fn)
	}
	prev := e.curFrame
	e.curFrame = fr
	defer func() { e.curFrame = prev }()
	order := rpo(fn)
	// loop ordinals in source order of header blocks
	fr.loopOrd = map[*ssa.BasicBlock]int{}
	n := 0
	for _, b := range fn.Blocks {
		if isLoopHeader(b) {
			n++
			fr.loopOrd[b] = n
		}
	}
	for _, b := range fn.Blocks {
		for _, ins := range b.Instrs {
			if d, ok := ins.(*ssa.Defer); ok && inLoop(b) && len(d.Common().Args) == 1 {
				ks := e.sortOf(d.Common().Args[0].Type())
				e.set(st, deferSetName(d), ArrSort(ks, SBool), "((as const "+string(ArrSort(ks, SBool))+") false)")
			}
		}
	}
	e.runBlocks(fr, order, nil, st, guard)
	// merge returns
	if len(fr.rets) == 0 {
		return Val{}, st, "false"
	}
	var guards []string
	var states []*State
	for _, r := range fr.rets {
		guards = append(guards, r.guard)
		states = append(states, r.st)
	}
	exitGuard := e.Out.Define(e.Out.FreshName(fr.prefix+"exit"), SBool, Or(guards...))
	merged := e.mergeStates(guards, states)
	var res Val
	sig := fn.Signature
	switch sig.Results().Len() {
	case 0:
	case 1:
		res = e.mergeVals(guards, func(i int) Val { return fr.rets[i].val }, fr.prefix+"ret")
	default:
		var tup []Val
		for k := 0; k < sig.Results().Len(); k++ {
			k := k
			tup = append(tup, e.mergeVals(guards, func(i int) Val { return fr.rets[i].val.Tup[k] }, fmt.Sprintf("%sret%d", fr.prefix, k)))
		}
		res = Val{Tup: tup, Ty: sig.Results()}
	}
	return res, merged, exitGuard
}

func (e *Exec) mergeVals(guards []string, get func(i int) Val, name string) Val {
	v0 := get(0)
	if v0.Addr != nil || v0.Clo != nil || v0.Tup != nil {
		same := true
		for i := 1; i < len(guards); i++ {
			if get(i).T != v0.T || get(i).Addr != v0.Addr {
				same = false
			}
		}
		if len(guards) == 1 || same {
			return v0
		}
		// reify addresses
		if v0.Addr != nil {
			term := e.reify(get(len(guards) - 1))
			for i := len(guards) - 2; i >= 0; i-- {
				term = Ite(guards[i], e.reify(get(i)), term)
			}
			return Val{T: e.Out.Define(e.Out.FreshName(name), SInt, term), S: SInt, Ty: v0.Ty}
		}
		e.unsupported("merge of non-scalar values (%s)", name)
	}
	term := get(len(guards) - 1).T
	for i := len(guards) - 2; i >= 0; i-- {
		vi := get(i)
		if vi.Addr != nil {
			e.unsupported("merge of address and scalar (%s)", name)
		}
		term = Ite(guards[i], vi.T, term)
	}
	if term == v0.T {
		return v0
	}
	return Val{T: e.Out.Define(e.Out.FreshName(name), v0.S, term), S: v0.S, Ty: v0.Ty}
}

func (e *Exec) mergeStates(guards []string, states []*State) *State {
	if len(states) == 1 {
		return states[0].clone()
	}
	keys := map[string]bool{}
	for _, s := range states {
		for k := range s.H {
			keys[k] = true
		}
	}
	out := &State{H: map[string]string{}}
	for _, k := range sortedKeys(keys) {
		sort := e.heapSorts[k]
		terms := make([]string, len(states))
		same := true
		for i, s := range states {
			terms[i] = e.get(s, k, sort)
			if terms[i] != terms[0] {
				same = false
			}
		}
		if same {
			out.H[k] = terms[0]
			continue
		}
		term := terms[len(terms)-1]
		for i := len(terms) - 2; i >= 0; i-- {
			term = Ite(guards[i], terms[i], term)
		}
		out.H[k] = e.Out.Define(e.Out.FreshName(k), sort, term)
	}
	return out
}

// edgeGuard returns (and caches) the guard of the CFG edge p->b.
func (e *Exec) edgeGuard(fr *Frame, p, b *ssa.BasicBlock) string {
	key := [2]int{p.Index, b.Index}
	if g, ok := fr.edges[key]; ok {
		return g
	}
	g := fr.guard[p]
	if iff, ok := p.Instrs[len(p.Instrs)-1].(*ssa.If); ok {
		c := e.val(fr, iff.Cond).T
		if p.Succs[0] == b && p.Succs[1] == b {
			// both branches
		} else if p.Succs[0] == b {
			g = And(g, c)
		} else {
			g = And(g, Not(c))
		}
	}
	sym := e.Out.Define(e.Out.FreshName(fmt.Sprintf("%se%d_%d", fr.prefix, p.Index, b.Index)), SBool, g)
	fr.edges[key] = sym
	return sym
}

// runBlocks processes the given blocks in order. If dryHeader is non-nil the blocks are the natural loop
// of that header and the pass is a dry run starting from st.
func (e *Exec) runBlocks(fr *Frame, order []*ssa.BasicBlock, dryHeader *ssa.BasicBlock, st0 *State, guard0 string) {
	for _, b := range order {
		var st *State
		var g string
		switch {
		case b == fr.fn.Blocks[0] && dryHeader == nil:
			st = st0.clone()
			g = guard0
			fr.guard[b] = g
		case b == dryHeader:
			// dry run: header starts from the entry state with fresh phis
			st = st0.clone()
			g = e.Out.Fresh(fr.prefix+"dry", SBool)
			fr.guard[b] = g
			for _, ins := range b.Instrs {
				if phi, ok := ins.(*ssa.Phi); ok {
					fr.vals[phi] = e.freshTyped(fr.prefix+phi.Name(), phi.Type(), st)
				}
			}
		case isLoopHeader(b):
			st, g = e.enterLoop(fr, b)
		default:
			var guards []string
			var states []*State
			var preds []*ssa.BasicBlock
			for _, p := range b.Preds {
				if _, done := fr.out[p]; !done {
					continue // unreachable or outside the region
				}
				guards = append(guards, e.edgeGuard(fr, p, b))
				states = append(states, fr.out[p])
				preds = append(preds, p)
			}
			if len(preds) == 0 {
				continue
			}
			g = e.Out.Define(e.Out.FreshName(fmt.Sprintf("%sg%d", fr.prefix, b.Index)), SBool, Or(guards...))
			fr.guard[b] = g
			st = e.mergeStates(guards, states)
			// phis
			for _, ins := range b.Instrs {
				phi, ok := ins.(*ssa.Phi)
				if !ok {
					break
				}
				var pg []string
				var pv []Val
				for i, p := range b.Preds {
					if _, done := fr.out[p]; !done {
						continue
					}
					pg = append(pg, e.edgeGuard(fr, p, b))
					pv = append(pv, e.val(fr, phi.Edges[i]))
				}
				fr.vals[phi] = e.mergeVals(pg, func(i int) Val { return pv[i] }, fr.prefix+phi.Name())
			}
		}
		e.runBlock(fr, b, st, g)
		// back edges out of this block
		for _, s := range b.Succs {
			if isBackEdge(b, s) {
				if dryHeader != nil && s == dryHeader {
					continue // dry run: state diff is collected by the caller
				}
				e.backEdge(fr, b, s)
			}
		}
	}
}

// LoopTexts returns, for a function with source, the header texts of its loops in the order of the loop ordinals
// ("range xs", "for i < n", "for"); nil when the loops of the syntax tree and of the SSA form cannot be paired one to one.
func LoopTexts(fn *ssa.Function) []string {
	syn := fn.Syntax()
	if syn == nil {
		return nil
	}
	var body *ast.BlockStmt
	switch n := syn.(type) {
	case *ast.FuncDecl:
		body = n.Body
	case *ast.FuncLit:
		body = n.Body
	}
	if body == nil {
		return nil
	}
	var texts []string
	ast.Inspect(body, func(n ast.Node) bool {
		switch n := n.(type) {
		case *ast.FuncLit:
			return false
		case *ast.RangeStmt:
			texts = append(texts, "range "+types.ExprString(n.X))
		case *ast.ForStmt:
			if n.Cond != nil {
				texts = append(texts, "for "+types.ExprString(n.Cond))
			} else {
				texts = append(texts, "for")
			}
		}
		return true
	})
	heads := 0
	for _, b := range fn.Blocks {
		if isLoopHeader(b) {
			heads++
		}
	}
	if heads != len(texts) {
		return nil
	}
	return texts
}

// loopRemap pairs the contract's loop annotations with the loops of the current code: an annotation tagged
// "over <text>" whose ordinal now carries another text follows the one loop that carries its text (if there is
// exactly one such loop not claimed by an annotation that is still in place). Result: actual ordinal -> annotation.
func (e *Exec) loopRemap(fr *Frame) map[int]*LoopSpec {
	if fr.remap != nil {
		return fr.remap
	}
	fr.remap = map[int]*LoopSpec{}
	fr.ctrOrd = map[int]int{}
	if fr.ctr == nil {
		return fr.remap
	}
	texts := LoopTexts(fr.fn)
	allTagged := texts != nil
	var ords []int
	for ord, sp := range fr.ctr.Loops {
		ords = append(ords, ord)
		if sp.Over == "" {
			allTagged = false
		}
	}
	sort.Ints(ords)
	if !allTagged {
		// without tags (or without a syntax tree) the annotations stay at their ordinals
		for _, ord := range ords {
			fr.remap[ord] = fr.ctr.Loops[ord]
			fr.ctrOrd[ord] = ord
		}
		return fr.remap
	}
	// loops keep their relative order when loops are inserted or removed: align the contract's sequence of header
	// texts with the current one (longest common subsequence, ties resolved towards the end of both sequences)
	n, m := len(ords), len(texts)
	lcs := make([][]int, n+1)
	for a := range lcs {
		lcs[a] = make([]int, m+1)
	}
	for a := 1; a <= n; a++ {
		for b := 1; b <= m; b++ {
			if fr.ctr.Loops[ords[a-1]].Over == texts[b-1] {
				lcs[a][b] = lcs[a-1][b-1] + 1
			} else if lcs[a-1][b] >= lcs[a][b-1] {
				lcs[a][b] = lcs[a-1][b]
			} else {
				lcs[a][b] = lcs[a][b-1]
			}
		}
	}
	matched := map[int]bool{}
	for a, b := n, m; a > 0 && b > 0; {
		sp := fr.ctr.Loops[ords[a-1]]
		switch {
		case sp.Over == texts[b-1] && lcs[a][b] == lcs[a-1][b-1]+1:
			fr.remap[b] = sp
			fr.ctrOrd[b] = sp.Ordinal
			matched[sp.Ordinal] = true
			if b != sp.Ordinal {
				e.P.Trusted[fmt.Sprintf("note: annotations of loop #%d (%s) of %s follow their loop to ordinal %d", sp.Ordinal, sp.Over, FuncKey(fr.fn), b)] = true
			}
			a, b = a-1, b-1
		case lcs[a-1][b] >= lcs[a][b-1]:
			a--
		default:
			b--
		}
	}
	for _, ord := range ords {
		// an annotation whose loop is gone (or whose header was rewritten) stays where the contract says, if free
		if !matched[ord] {
			if _, taken := fr.remap[ord]; !taken {
				fr.remap[ord] = fr.ctr.Loops[ord]
				fr.ctrOrd[ord] = ord
			}
		}
	}
	return fr.remap
}

// loopSpec: the annotations of the loop with header h, or the automatic ones.
func (e *Exec) loopSpec(fr *Frame, h *ssa.BasicBlock) *LoopSpec {
	ord := fr.loopOrd[h]
	var spec *LoopSpec
	if fr.ctr != nil {
		spec = e.loopRemap(fr)[ord]
	}
	if spec == nil && fr.autoLoops != nil {
		spec = fr.autoLoops[ord]
	}
	if spec == nil {
		// an unannotated loop is cut with what the engine knows by itself: the frame invariant of the function and, for
		// range loops over slices, that the number of completed iterations is not negative. Weak but sound: whatever the contract
		// needs from the loop beyond that then fails as a named obligation instead of a refusal to generate.
		spec = &LoopSpec{Ordinal: ord}
		for _, ins := range h.Instrs {
			phi, ok := ins.(*ssa.Phi)
			if !ok {
				break
			}
			if phi.Comment == "rangeindex" {
				if x, err := ParseExpr("0 <= _n"); err == nil {
					spec.Invariants = append(spec.Invariants, Clause{Label: "auto-range", Text: "0 <= _n", E: x, Src: "(automatic)"})
				}
			}
		}
		e.P.Trusted[fmt.Sprintf("note: loop #%d of %s carries no annotation (cut with the automatic invariants only)", ord, FuncKey(fr.fn))] = true
		if fr.autoLoops == nil {
			fr.autoLoops = map[int]*LoopSpec{}
		}
		fr.autoLoops[ord] = spec
	}
	return spec
}

// enterLoop handles a loop header: checks invariants on entry, havocs, assumes invariants.
func (e *Exec) enterLoop(fr *Frame, h *ssa.BasicBlock) (*State, string) {
	ord := fr.loopOrd[h]
	spec := e.loopSpec(fr, h)
	var guards []string
	var states []*State
	var preds []int
	for i, p := range h.Preds {
		if isBackEdge(p, h) {
			continue
		}
		if _, done := fr.out[p]; !done {
			continue
		}
		guards = append(guards, e.edgeGuard(fr, p, h))
		states = append(states, fr.out[p])
		preds = append(preds, i)
	}
	if len(guards) == 0 {
		e.unsupported("loop header without processed entry edge")
	}
	gEntry := e.Out.Define(e.Out.FreshName(fmt.Sprintf("%sloopentry%d", fr.prefix, ord)), SBool, Or(guards...))
	stEntry := e.mergeStates(guards, states)
	// phi values on entry
	entryPhi := map[*ssa.Phi]Val{}
	var phis []*ssa.Phi
	for _, ins := range h.Instrs {
		phi, ok := ins.(*ssa.Phi)
		if !ok {
			break
		}
		phis = append(phis, phi)
		var pv []Val
		for _, i := range preds {
			pv = append(pv, e.val(fr, phi.Edges[i]))
		}
		entryPhi[phi] = e.mergeVals(guards, func(i int) Val { return pv[i] }, fr.prefix+phi.Name()+"@entry")
	}
	// inv-entry obligations
	for _, phi := range phis {
		fr.vals[phi] = entryPhi[phi]
	}
	envE := e.envForLoop(fr, h, stEntry)
	for _, c := range spec.Invariants {
		t := e.evalBool(c, envE)
		e.Out.AddObl(&Obligation{Name: fmt.Sprintf("%s/inv-entry:loop%d:%s", FuncKey(fr.fn), ord, c.Label), Func: FuncKey(fr.fn), Kind: "inv-entry", Label: c.Label, Text: c.Text, Src: c.Src,
			Formula: Imp(gEntry, t), Inputs: e.obsInputs(fr), Obs: e.lastObs})
	}
	// dry run to find what the loop modifies
	loop := naturalLoop(h)
	var loopOrder []*ssa.BasicBlock
	for _, b := range rpo(fr.fn) {
		if loop[b] {
			loopOrder = append(loopOrder, b)
		}
	}
	mods := e.dryRun(fr, h, loopOrder, stEntry)
	// havoc
	st := stEntry.clone()
	topEntry := e.top(stEntry)
	for _, name := range sortedKeys(mods) {
		mi := mods[name]
		sort := e.heapSorts[name]
		if name == "$top" {
			nt := e.havoc(st, "$top", SInt)
			e.Out.Assert("(>= " + nt + " " + topEntry + ")")
			continue
		}
		cur := e.get(stEntry, name, sort)
		_, vs, _ := arrayParts(sort)
		switch {
		case mi.whole:
			e.havoc(st, name, sort)
		case mi.allocs:
			// objects allocated inside the loop are written: everything that existed at loop entry and is not
			// written through a loop-invariant reference keeps its value
			nh := e.havoc(st, name, sort)
			r := e.Out.FreshName("r")
			conds := []string{"(<= (owner " + r + ") " + topEntry + ")"}
			for _, ref := range mi.refs {
				conds = append(conds, Not(Eq(r, ref)))
			}
			e.Out.Assert("(forall ((" + r + " Int)) (! (=> " + And(conds...) + " (= (select " + nh + " " + r + ") (select " + cur + " " + r + "))) :pattern ((select " + nh + " " + r + "))))")
		default:
			// row-wise havoc: only the listed (loop-invariant) references change
			for _, r := range mi.refs {
				row := e.Out.Fresh(name+"@row", vs)
				cur = Sto(cur, r, row)
				e.wellFormedRow(name, r, row, st)
			}
			e.set(st, name, sort, cur)
		}
	}
	gh := e.Out.Fresh(fmt.Sprintf("%sloophead%d", fr.prefix, ord), SBool)
	e.Out.Assert(Imp(gh, gEntry))
	fr.guard[h] = gh
	for _, phi := range phis {
		fr.vals[phi] = e.freshTyped(fr.prefix+phi.Name(), phi.Type(), st)
	}
	envH := e.envForLoop(fr, h, st)
	for _, c := range spec.Invariants {
		e.Out.AssertTagged(Imp(gh, e.evalBool(c, envH)), c.Label)
	}
	// automatic frame invariants: what the loop may have changed is still within the function's frame
	if fr.ctr != nil && fr.depth == 0 && !e.Opt.NoAutoFrame {
		if fr.loopMods == nil {
			fr.loopMods = map[*ssa.BasicBlock][]string{}
		}
		fr.loopMods[h] = nil
		for _, name := range sortedKeys(mods) {
			if name == "$top" {
				continue
			}
			fe := e.frameQuantified(fr, name, e.get(stEntry, name, e.heapSorts[name]))
			if fe != "true" {
				e.Out.AddObl(&Obligation{Name: fmt.Sprintf("%s/inv-entry:loop%d:auto-frame:%s", FuncKey(fr.fn), ord, name), Func: FuncKey(fr.fn), Kind: "inv-entry", Label: "auto-frame", Text: "automatic frame invariant for " + name, Src: fr.ctr.Src,
					Formula: Imp(gEntry, fe), Inputs: e.obsInputs(fr)})
			}
			fh := e.frameQuantified(fr, name, e.get(st, name, e.heapSorts[name]))
			if fh == "true" {
				continue
			}
			fr.loopMods[h] = append(fr.loopMods[h], name)
			e.Out.Assert(Imp(gh, fh))
		}
	}
	return st, gh
}

// dryRun symbolically executes the loop body once, discarding everything, and reports which state
// components differ at the back edges. A non-nil slice lists loop-invariant references (row-wise havoc).
type modInfo struct {
	refs   []string // loop-invariant references written
	whole  bool     // written through references that are neither loop-invariant nor allocated inside the loop
	allocs bool     // written at objects allocated inside the loop
}

func (e *Exec) dryRun(fr *Frame, h *ssa.BasicBlock, loopOrder []*ssa.BasicBlock, stEntry *State) map[string]*modInfo {
	m := e.Out.Mark()
	savedFresh := e.Out.fresh
	savedVals := map[ssa.Value]Val{}
	for k, v := range fr.vals {
		savedVals[k] = v
	}
	savedOut := map[*ssa.BasicBlock]*State{}
	for k, v := range fr.out {
		savedOut[k] = v
	}
	savedGuard := map[*ssa.BasicBlock]string{}
	for k, v := range fr.guard {
		savedGuard[k] = v
	}
	savedEdges := map[[2]int]string{}
	for k, v := range fr.edges {
		savedEdges[k] = v
	}
	savedDefers, savedRets := len(fr.defers), len(fr.rets)
	savedParts := map[string][4]string{}
	for k, v := range e.sliceParts {
		savedParts[k] = v
	}
	defer func() { e.sliceParts = savedParts }()
	savedWrites := e.writes
	var writes []writeRec
	e.writes = &writes
	savedSite := map[string]int{}
	for k, v := range e.siteCount {
		savedSite[k] = v
	}
	// only blocks of the loop are visible as predecessors
	for b := range fr.out {
		delete(fr.out, b)
	}
	func() {
		defer func() {
			// restore even on unsupported
			if r := recover(); r != nil {
				e.writes = savedWrites
				panic(r)
			}
		}()
		e.runBlocks(fr, loopOrder, h, stEntry, "true")
	}()
	mods := map[string]*modInfo{}
	changed := map[string]bool{}
	for _, p := range h.Preds {
		if !isBackEdge(p, h) {
			continue
		}
		ps, ok := fr.out[p]
		if !ok {
			continue
		}
		for k, v := range ps.H {
			if e.get(stEntry, k, e.heapSorts[k]) != v {
				changed[k] = true
			}
		}
	}
	fresh := e.Out.definedSince(m)
	for k := range changed {
		mi := &modInfo{}
		mods[k] = mi
		if _, isArr, _ := arrayPartsOK(e.heapSorts[k]); !isArr || strings.HasPrefix(k, "$") {
			mi.whole = true
			continue
		}
		seen := map[string]bool{}
		any := false
		for _, w := range writes {
			if w.heap != k {
				continue
			}
			any = true
			if w.ref == "" {
				mi.whole = true
				break
			}
			if root := subRoot(w.ref); fresh[root] && e.allocSyms[root] {
				mi.allocs = true
				continue
			}
			inv := true
			ref := w.ref
			for _, sy := range symbolsIn(ref) {
				if fresh[sy] {
					inv = false
				}
			}
			if !inv {
				// a reference computed inside the loop from loop-invariant values only (e.g. the contents of a
				// captured variable's cell that the loop does not write) is loop-invariant once its definitions are unfolded
				ref = e.Out.expandDefs(ref, fresh, e.allocSyms, 0)
				if root := subRoot(ref); fresh[root] && e.allocSyms[root] {
					mi.allocs = true
					continue
				}
				inv = true
				for _, sy := range symbolsIn(ref) {
					if fresh[sy] {
						inv = false
					}
				}
			}
			if !inv {
				mi.whole = true
				break
			}
			if !seen[ref] {
				seen[ref] = true
				mi.refs = append(mi.refs, ref)
			}
		}
		if !any || len(mi.refs) > 6 {
			mi.whole = true
		}
		if os.Getenv("GOVC_DEBUG_LOOP") != "" {
			fmt.Fprintf(os.Stderr, "loop %s #%d heap %s: whole=%v allocs=%v refs=%v\n", fr.fn.Name(), fr.loopOrd[h], k, mi.whole, mi.allocs, mi.refs)
			for _, w := range writes {
				if w.heap == k {
					fmt.Fprintf(os.Stderr, "   write ref=%s\n", w.ref)
				}
			}
		}
	}
	// restore
	e.writes = savedWrites
	e.Out.Rollback(m)
	_ = savedFresh
	fr.vals = savedVals
	fr.out = savedOut
	fr.guard = savedGuard
	fr.edges = savedEdges
	fr.defers = fr.defers[:savedDefers]
	fr.rets = fr.rets[:savedRets]
	e.siteCount = savedSite
	// writes inside the loop must also be visible to an enclosing dry run
	if savedWrites != nil {
		for _, w := range writes {
			*savedWrites = append(*savedWrites, writeRec{w.heap, ""})
		}
	}
	// entry versions referenced by mods might have been declared inside the rolled-back region
	e.top(stEntry)
	for k := range mods {
		e.get(stEntry, k, e.heapSorts[k])
	}
	return mods
}

func arrayPartsOK(s Sort) (Sort, bool, Sort) {
	k, v, ok := arrayParts(s)
	return k, ok, v
}

// backEdge checks that the invariants are preserved along p->h.
func (e *Exec) backEdge(fr *Frame, p, h *ssa.BasicBlock) {
	ord := fr.loopOrd[h]
	spec := e.loopSpec(fr, h)
	g := e.edgeGuard(fr, p, h)
	// bind phis to the back-edge values
	saved := map[*ssa.Phi]Val{}
	idx := -1
	for i, q := range h.Preds {
		if q == p {
			idx = i
		}
	}
	for _, ins := range h.Instrs {
		phi, ok := ins.(*ssa.Phi)
		if !ok {
			break
		}
		saved[phi] = fr.vals[phi]
		fr.vals[phi] = e.val(fr, phi.Edges[idx])
	}
	// several back edges of one loop: number them in predecessor order
	edgeNo, be := 0, 0
	for _, q := range h.Preds {
		if isBackEdge(q, h) {
			be++
			if q == p {
				edgeNo = be
			}
		}
	}
	sfx := ""
	if edgeNo > 1 {
		sfx = fmt.Sprintf("#%d", edgeNo)
	}
	env := e.envForLoop(fr, h, fr.out[p])
	for _, c := range spec.Hints {
		t := e.evalBool(c, env)
		e.Out.AddObl(&Obligation{Name: fmt.Sprintf("%s/hint:loop%d:%s%s", FuncKey(fr.fn), ord, c.Label, sfx), Func: FuncKey(fr.fn), Kind: "hint", Label: c.Label, Text: c.Text, Src: c.Src,
			Formula: Imp(g, t), Inputs: e.obsInputs(fr), Obs: e.lastObs})
		e.assume(g, t)
	}
	for _, c := range spec.Invariants {
		t := e.evalBool(c, env)
		e.Out.AddObl(&Obligation{Name: fmt.Sprintf("%s/inv-pres:loop%d:%s%s", FuncKey(fr.fn), ord, c.Label, sfx), Func: FuncKey(fr.fn), Kind: "inv-pres", Label: c.Label, Text: c.Text, Src: c.Src,
			Formula: Imp(g, t), Inputs: e.obsInputs(fr), Obs: e.lastObs})
	}
	for _, name := range fr.loopMods[h] {
		fb := e.frameQuantified(fr, name, e.get(fr.out[p], name, e.heapSorts[name]))
		if fb == "true" {
			continue
		}
		e.Out.AddObl(&Obligation{Name: fmt.Sprintf("%s/inv-pres:loop%d:auto-frame:%s%s", FuncKey(fr.fn), ord, name, sfx), Func: FuncKey(fr.fn), Kind: "inv-pres", Label: "auto-frame", Text: "automatic frame invariant for " + name, Src: fr.ctr.Src,
			Formula: Imp(g, fb), Inputs: e.obsInputs(fr)})
	}
	if spec.Decreases != nil {
		after := e.evalSpec(spec.Decreases.E, env)
		for phi, v := range saved {
			fr.vals[phi] = v
		}
		envB := e.envForLoop(fr, h, fr.out[h])
		_ = envB
		// measure at the header uses the havocked header state: recompute with header values
		hdrState := e.loopHeadState(fr, h)
		before := e.evalSpec(spec.Decreases.E, e.envForLoop(fr, h, hdrState))
		e.Out.AddObl(&Obligation{Name: fmt.Sprintf("%s/decreases:loop%d", FuncKey(fr.fn), ord), Func: FuncKey(fr.fn), Kind: "decreases", Label: "decreases", Text: spec.Decreases.Text, Src: spec.Decreases.Src,
			Formula: Imp(g, "(and (>= "+before.T+" 0) (< "+after.T+" "+before.T+"))")})
		return
	}
	for phi, v := range saved {
		fr.vals[phi] = v
	}
}

func (e *Exec) loopHeadState(fr *Frame, h *ssa.BasicBlock) *State {
	if s, ok := fr.headState[h]; ok {
		return s
	}
	return fr.out[h]
}

// runBlock executes the instructions of one block.
func (e *Exec) runBlock(fr *Frame, b *ssa.BasicBlock, st *State, g string) {
	if fr.headState == nil {
		fr.headState = map[*ssa.BasicBlock]*State{}
	}
	fr.headState[b] = st.clone()
	for _, ins := range b.Instrs {
		e.instr(fr, ins, st, g)
	}
	fr.out[b] = st
}

// val returns the symbolic value of an SSA value.
func (e *Exec) val(fr *Frame, v ssa.Value) Val {
	if x, ok := fr.vals[v]; ok {
		return x
	}
	switch c := v.(type) {
	case *ssa.Const:
		return e.constVal(c)
	case *ssa.Global:
		return e.globalAddr(c)
	case *ssa.Function:
		return Val{Clo: &Closure{Fn: c}, Ty: c.Type()}
	case *ssa.Builtin:
		return Val{Clo: &Closure{Fn: c}, Ty: c.Type()}
	}
	e.unsupported("value %s (%T) used before definition in %s", v.Name(), v, fr.fn)
	return Val{}
}

func (e *Exec) constVal(c *ssa.Const) Val {
	t := c.Type()
	s := e.sortOf(t)
	if c.Value == nil {
		return Val{T: e.zeroOf(t), S: s, Ty: t}
	}
	switch c.Value.Kind() {
	case constant.Bool:
		if constant.BoolVal(c.Value) {
			return Val{T: "true", S: SBool, Ty: t}
		}
		return Val{T: "false", S: SBool, Ty: t}
	case constant.String:
		return Val{T: StrLit(constant.StringVal(c.Value)), S: SStr, Ty: t}
	case constant.Int:
		bi, ok := new(big.Int).SetString(c.Value.ExactString(), 10)
		if !ok {
			e.unsupported("integer constant %s", c.Value)
		}
		return Val{T: bigLit(bi), S: SInt, Ty: t}
	case constant.Float:
		// durations etc. computed from float constants: opaque
		f, _ := constant.Float64Val(c.Value)
		return Val{T: e.Out.Declare(fmt.Sprintf("float$%v", f), SInt), S: SInt, Ty: t}
	}
	e.unsupported("constant %s", c)
	return Val{}
}

func (e *Exec) globalAddr(g *ssa.Global) Val {
	pt := g.Type().(*types.Pointer).Elem()
	name := "G$" + e.qual(g.Pkg.Pkg) + "." + g.Name()
	if arr, ok := pt.Underlying().(*types.Array); ok {
		// array globals live in the element heap under a constant negative base
		h, hs := e.elemHeap(arr.Elem())
		base := e.globalBase(name)
		return Val{Addr: &Addr{Kind: "row", Heap: h, HS: hs, Ref: base, Ty: pt}, Ty: g.Type()}
	}
	return Val{Addr: &Addr{Kind: "global", Heap: name, HS: e.sortOf(pt), Ty: pt}, Ty: g.Type()}
}

var globalBases = map[string]int{}

func (e *Exec) globalBase(name string) string {
	id, ok := globalBases[name]
	if !ok {
		id = len(globalBases) + 1
		globalBases[name] = id
	}
	return IntLit(int64(-id))
}

func (e *Exec) define(fr *Frame, v ssa.Value, term string) Val {
	s := e.sortOf(v.Type())
	sym := e.Out.Define(fr.prefix+v.Name(), s, term)
	if s == SSlice {
		// a symbol re-defined after a rolled-back dry run must not keep the components of its earlier definition
		delete(e.sliceParts, sym)
		if p, ok := e.sparts(term); ok {
			if e.sliceParts == nil {
				e.sliceParts = map[string][4]string{}
			}
			e.sliceParts[sym] = p
		}
	}
	x := Val{T: sym, S: s, Ty: v.Type()}
	fr.vals[v] = x
	return x
}

// defineOpaque introduces the value as a constant constrained by an equality (instead of a macro), so that the
// solver keeps it atomic inside index terms and triggers match on it.
func (e *Exec) defineOpaque(fr *Frame, v ssa.Value, term string) Val {
	s := e.sortOf(v.Type())
	sym := e.Out.Declare(fr.prefix+v.Name(), s)
	if _, dup := fr.vals[v]; dup {
		sym = e.Out.Fresh(fr.prefix+v.Name(), s)
	}
	e.Out.Assert(Eq(sym, term))
	x := Val{T: sym, S: s, Ty: v.Type()}
	fr.vals[v] = x
	return x
}

func (e *Exec) assume(g, f string) { e.Out.Assert(Imp(g, f)) }

// safety emits either an assumption (normal mode) or an obligation (sweep mode) that cond holds here.
func (e *Exec) safety(fr *Frame, ins ssa.Instruction, g, cond, kind string) {
	if cond == "true" {
		return
	}
	if e.Opt.Sweep {
		pos := e.P.Fset.Position(ins.Pos())
		site := fmt.Sprintf("%s@%s", kind, shortPos(pos))
		e.siteCount[site]++
		name := fmt.Sprintf("%s/safe:%s", FuncKey(fr.fn), site)
		if n := e.siteCount[site]; n > 1 {
			name = fmt.Sprintf("%s#%d", name, n)
		}
		e.Out.AddObl(&Obligation{Name: name, Func: FuncKey(fr.fn), Kind: "safe", Label: kind, Text: kind + " at " + pos.String(), Src: pos.String(), Formula: Imp(g, cond), Inputs: e.inputTerms(fr)})
	}
	e.assume(g, cond)
}

func shortPos(p token.Position) string {
	f := p.Filename
	if i := strings.LastIndex(f, "/"); i >= 0 {
		f = f[i+1:]
	}
	return fmt.Sprintf("%s:%d:%d", f, p.Line, p.Column)
}

// ---- slice component access with syntactic simplification ----

func (e *Exec) sparts(t string) ([4]string, bool) {
	if p, ok := e.sliceParts[t]; ok {
		if _, live := e.Out.declared[t]; live {
			return p, true
		}
	}
	if strings.HasPrefix(t, "(mk_slice ") {
		// split the four arguments
		body := t[len("(mk_slice ") : len(t)-1]
		var parts []string
		depth, start := 0, 0
		for i := 0; i < len(body); i++ {
			switch body[i] {
			case '(':
				depth++
			case ')':
				depth--
			case '|':
				j := strings.IndexByte(body[i+1:], '|')
				if j >= 0 {
					i += j + 1
				}
			case ' ':
				if depth == 0 {
					parts = append(parts, body[start:i])
					start = i + 1
				}
			}
		}
		parts = append(parts, body[start:])
		if len(parts) == 4 {
			return [4]string{parts[0], parts[1], parts[2], parts[3]}, true
		}
	}
	return [4]string{}, false
}

func (e *Exec) sbase(t string) string {
	if p, ok := e.sparts(t); ok {
		return p[0]
	}
	return "(s_base " + t + ")"
}
func (e *Exec) soff(t string) string {
	if p, ok := e.sparts(t); ok {
		return p[1]
	}
	return "(s_off " + t + ")"
}
func (e *Exec) slen(t string) string {
	if p, ok := e.sparts(t); ok {
		return p[2]
	}
	return "(s_len " + t + ")"
}
func (e *Exec) scap(t string) string {
	if p, ok := e.sparts(t); ok {
		return p[3]
	}
	return "(s_cap " + t + ")"
}

// elemIdx is the absolute index of element i of a slice with offset off. A symbolic offset goes through the
// uninterpreted 'idx' (axiom idx(o,i) = o+i) so that quantifier triggers never contain interpreted arithmetic.
func elemIdx(off, i string) string {
	// always through idx (even for offset 0): invariants written over x[j] use (idx off j) with a symbolic offset,
	// and E-matching can only connect them to an access of the code if that access has the same shape
	return "(idx " + off + " " + i + ")"
}

// addInt builds (+ a b) with constant folding of zero.
func addInt(a, b string) string {
	if a == "0" {
		return b
	}
	if b == "0" {
		return a
	}
	return "(+ " + a + " " + b + ")"
}

func subInt(a, b string) string {
	if b == "0" {
		return a
	}
	if a == b {
		return "0"
	}
	return "(- " + a + " " + b + ")"
}

// defSlice defines a slice value and records its components.
func (e *Exec) defSlice(fr *Frame, x ssa.Value, base, off, ln, cp string) Val {
	v := e.define(fr, x, "(mk_slice "+base+" "+off+" "+ln+" "+cp+")")
	if e.sliceParts == nil {
		e.sliceParts = map[string][4]string{}
	}
	e.sliceParts[v.T] = [4]string{base, off, ln, cp}
	return v
}

// ---- nested structs: a struct-typed field lives at a sub-reference of its enclosing object ----

func isStructT(t types.Type) bool {
	_, ok := t.Underlying().(*types.Struct)
	return ok
}

// subRef is the pseudo-reference of the struct stored in field 'heap' (H$T.f) of the object at ref.
func (e *Exec) subRef(heap, ref string) string {
	if e.subIDs == nil {
		e.subIDs = map[string]int{}
	}
	id, ok := subFieldIDs[heap]
	if !ok {
		id = len(subFieldIDs) + 1
		subFieldIDs[heap] = id
	}
	t := "(sub " + IntLit(int64(id)) + " " + ref + ")"
	if e.subLine == nil {
		e.subLine = map[string]int{}
	}
	idx, done := e.subLine[t]
	if done && (idx >= len(e.Out.Lines) || !strings.Contains(e.Out.Lines[idx], t)) {
		done = false // the fact was emitted inside a rolled-back dry run
	}
	if !done && !strings.Contains(t, "q$") && !strings.Contains(t, "lt$") && !strings.Contains(t, "wf$") && !strings.Contains(t, "frame$") {
		e.subLine[t] = len(e.Out.Lines)
		// sub-references live in their own (negative) region, belong to the enclosing object, and the pair
		// (field, object) can be recovered from them: sub-references of different fields or objects are distinct
		e.Out.Assert("(and (< " + t + " (- 1000)) (= (owner " + t + ") (owner " + ref + ")) (= (subf " + t + ") " + IntLit(int64(id)) + ") (= (subr " + t + ") " + ref + "))")
	}
	return t
}

var subFieldIDs = map[string]int{}

// loadStruct builds the value (token) of the struct of type t whose fields live at ref.
func (e *Exec) loadStruct(t types.Type, ref string, st *State) string {
	su := t.Underlying().(*types.Struct)
	if su.NumFields() == 0 {
		return "0"
	}
	var fsorts []Sort
	var fterms []string
	for i := 0; i < su.NumFields(); i++ {
		h, hs, ft := e.fieldHeap(t, i)
		fsorts = append(fsorts, e.sortOf(ft))
		if isStructT(ft) {
			fterms = append(fterms, e.loadStruct(ft, e.subRef(h, ref), st))
		} else if arr, ok := ft.Underlying().(*types.Array); ok {
			// array-typed fields live in the element heap at a sub-reference (so that they can be sliced)
			eh, ehs := e.elemHeap(arr.Elem())
			fterms = append(fterms, e.read1(e.get(st, eh, ehs), e.subRef(h, ref)))
		} else {
			fterms = append(fterms, e.read1(e.get(st, h, hs), ref))
		}
	}
	mk := e.Out.DeclareFun("mk$"+e.typeName(t), fsorts, SInt)
	tok := App(mk, fterms...)
	for i := 0; i < su.NumFields(); i++ {
		_, _, ft := e.fieldHeap(t, i)
		proj := e.Out.DeclareFun("SF$"+e.typeName(t)+"."+su.Field(i).Name(), []Sort{SInt}, e.sortOf(ft))
		if !strings.Contains(tok, "q$") && !strings.Contains(tok, "lt$") {
			e.Out.Assert(Eq(App(proj, tok), fterms[i]))
		}
	}
	return tok
}

// storeStruct writes the struct value v of type t field-wise at ref.
func (e *Exec) storeStruct(t types.Type, ref, v string, st *State) {
	su := t.Underlying().(*types.Struct)
	if su.NumFields() == 0 {
		return
	}
	var fsorts []Sort
	var projs []string
	for i := 0; i < su.NumFields(); i++ {
		_, _, ft := e.fieldHeap(t, i)
		fsorts = append(fsorts, e.sortOf(ft))
		proj := e.Out.DeclareFun("SF$"+e.typeName(t)+"."+su.Field(i).Name(), []Sort{SInt}, e.sortOf(ft))
		projs = append(projs, App(proj, v))
	}
	mk := e.Out.DeclareFun("mk$"+e.typeName(t), fsorts, SInt)
	e.Out.Assert(Eq(App(mk, projs...), v))
	for i := 0; i < su.NumFields(); i++ {
		h, hs, ft := e.fieldHeap(t, i)
		if isStructT(ft) {
			e.storeStruct(ft, e.subRef(h, ref), projs[i], st)
		} else if arr, ok := ft.Underlying().(*types.Array); ok {
			eh, ehs := e.elemHeap(arr.Elem())
			e.write1(st, eh, ehs, e.subRef(h, ref), projs[i])
		} else {
			e.write1(st, h, hs, ref, projs[i])
		}
	}
}

// zeroStructAt zero-initialises the fields of a struct of type t at ref.
func (e *Exec) zeroStructAt(t types.Type, ref string, st *State) {
	su := t.Underlying().(*types.Struct)
	for i := 0; i < su.NumFields(); i++ {
		h, hs, ft := e.fieldHeap(t, i)
		if isStructT(ft) {
			e.zeroStructAt(ft, e.subRef(h, ref), st)
		} else if arr, ok := ft.Underlying().(*types.Array); ok {
			eh, ehs := e.elemHeap(arr.Elem())
			e.write1(st, eh, ehs, e.subRef(h, ref), e.zeroOf(ft))
		} else {
			e.write1(st, h, hs, ref, e.zeroOf(ft))
		}
	}
}

// subRoot strips sub-reference wrappers "(addr$H... X)" and returns the innermost reference term.
func subRoot(ref string) string {
	for strings.HasPrefix(ref, "(sub ") {
		rest := ref[len("(sub "):]
		j := strings.IndexByte(rest, ' ')
		if j < 0 {
			return ref
		}
		ref = rest[j+1 : len(rest)-1]
	}
	for strings.HasPrefix(ref, "(addr$") || strings.HasPrefix(ref, "(|addr$") {
		// "(f arg)": find the space that separates the function symbol from its single argument
		i := 1
		if ref[1] == '|' {
			j := strings.IndexByte(ref[2:], '|')
			if j < 0 {
				return ref
			}
			i = j + 3
		} else {
			j := strings.IndexByte(ref, ' ')
			if j < 0 {
				return ref
			}
			i = j
		}
		if i >= len(ref) || ref[i] != ' ' {
			return ref
		}
		ref = ref[i+1 : len(ref)-1]
	}
	return ref
}
