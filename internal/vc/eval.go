package vc

import (
	"hash/fnv"
	"fmt"
	"go/constant"
	"go/types"
	"math/big"
	"strconv"
	"strings"

	"golang.org/x/tools/go/ssa"
)

// Env is the evaluation environment of a specification expression.
type Env struct {
	e      *Exec
	vars   map[string]Val
	st     *State // current state
	old    *State // state denoted by old(...)
	fr     *Frame
	result *Val
	block  *ssa.BasicBlock
	inOld  bool
	obs    *[]ObsTerm
	home   *types.Package // package in which the contract being evaluated was written
	bound  bool // inside a quantifier: terms mention bound variables
	binders map[string]bool // names of the SMT binders currently in scope (deterministic binder names must not capture)
}

// ObsTerm is a sub-expression of a clause with its SMT term (reported from models).
type ObsTerm struct {
	Text string
	Term string
}

func (env *Env) with(name string, v Val) *Env {
	n := *env
	n.vars = make(map[string]Val, len(env.vars)+1)
	for k, x := range env.vars {
		n.vars[k] = x
	}
	n.vars[name] = v
	return &n
}

type ghostComp struct {
	name string
	sort Sort
}

// ghost values are carried in Val.T as a marker "ghost:<name>".
func (e *Exec) ghostComps(g *GhostVar) (kind string, comps []ghostComp, k, v Sort) {
	t := strings.TrimSpace(g.Type)
	switch {
	case strings.HasPrefix(t, "map["):
		end := matchBracket(t, 3)
		k, _ = e.resolveType(t[4:end], nil)
		v, _ = e.resolveType(t[end+1:], nil)
		return "map", []ghostComp{{"$g$" + g.Name + "$dom", ArrSort(k, SBool)}, {"$g$" + g.Name + "$val", ArrSort(k, v)}}, k, v
	case strings.HasPrefix(t, "set["):
		k, _ = e.resolveType(t[4:len(t)-1], nil)
		return "set", []ghostComp{{"$g$" + g.Name, ArrSort(k, SBool)}}, k, SBool
	}
	s, _ := e.resolveType(t, nil)
	return "scalar", []ghostComp{{"$g$" + g.Name, s}}, "", s
}

func matchBracket(s string, open int) int {
	d := 0
	for i := open; i < len(s); i++ {
		switch s[i] {
		case '[':
			d++
		case ']':
			d--
			if d == 0 {
				return i
			}
		}
	}
	return len(s) - 1
}

// resolveType maps a type written in a specification to an SMT sort and (when it is a Go type) a go/types type.
func (e *Exec) resolveType(text string, from *types.Package) (Sort, types.Type) {
	t := strings.TrimSpace(text)
	switch t {
	case "int", "Int":
		return SInt, nil
	case "bool", "Bool":
		return SBool, types.Typ[types.Bool]
	case "string", "String":
		return SStr, types.Typ[types.String]
	case "Bytes":
		return SBytes, nil
	case "ref", "Ref":
		return SInt, nil
	case "any", "Any":
		return SAny, types.NewInterfaceType(nil, nil)
	case "byte", "uint8":
		return SInt, types.Typ[types.Uint8]
	case "uint64":
		return SInt, types.Typ[types.Uint64]
	case "int64":
		return SInt, types.Typ[types.Int64]
	case "uint32":
		return SInt, types.Typ[types.Uint32]
	case "Slice":
		return SSlice, nil
	}
	if strings.HasPrefix(t, "(") {
		return Sort(t), nil // raw SMT sort
	}
	if strings.HasPrefix(t, "map[") {
		end := matchBracket(t, 3)
		_, kt := e.resolveType(t[4:end], from)
		_, vt := e.resolveType(t[end+1:], from)
		if kt != nil && vt != nil {
			return SInt, types.NewMap(kt, vt)
		}
		return SInt, nil
	}
	if strings.HasPrefix(t, "*") {
		_, et := e.resolveType(t[1:], from)
		if et == nil {
			return SInt, nil
		}
		return SInt, types.NewPointer(et)
	}
	if strings.HasPrefix(t, "[]") {
		_, et := e.resolveType(t[2:], from)
		if et == nil {
			return SSlice, nil
		}
		return SSlice, types.NewSlice(et)
	}
	if strings.HasPrefix(t, "[") {
		end := strings.Index(t, "]")
		n, err := strconv.Atoi(t[1:end])
		if err == nil {
			es, et := e.resolveType(t[end+1:], from)
			if et != nil {
				return ArrSort(SInt, es), types.NewArray(et, int64(n))
			}
			return ArrSort(SInt, es), nil
		}
	}
	if from == nil && e.curFrame != nil && e.curFrame.fn.Pkg != nil {
		from = e.curFrame.fn.Pkg.Pkg
	}
	if from == nil && e.Top != nil && e.Top.Pkg != nil {
		from = e.Top.Pkg.Pkg
	}
	if from == nil {
		from = e.ctxPkg
	}
	if i := strings.LastIndex(t, "."); i > 0 {
		pk := e.P.FindPackage(t[:i], from)
		if pk != nil {
			if obj := pk.Scope().Lookup(t[i+1:]); obj != nil {
				return e.sortOf(obj.Type()), obj.Type()
			}
		}
	} else if from != nil {
		if obj := from.Scope().Lookup(t); obj != nil {
			if _, ok := obj.(*types.TypeName); ok {
				return e.sortOf(obj.Type()), obj.Type()
			}
		}
	}
	e.unsupported("unknown type %q in specification", text)
	return "", nil
}

func (e *Exec) evalBool(c Clause, env *Env) string {
	if env.obs == nil {
		n := *env
		n.obs = &[]ObsTerm{}
		env = &n
		defer func() { e.lastObs = *n.obs }()
	}
	v := e.evalSpec(c.E, env)
	if v.S != SBool {
		e.unsupported("%s: clause %q is not boolean (sort %s)", c.Src, c.Text, v.S)
	}
	return v.T
}

func boolVal(t string) Val { return Val{T: t, S: SBool, Ty: types.Typ[types.Bool]} }
func intVal(t string) Val  { return Val{T: t, S: SInt} }

func (e *Exec) evalSpec(x Expr, env *Env) Val {
	switch x := x.(type) {
	case EInt:
		bi, ok := new(big.Int).SetString(x.Val, 0)
		if !ok {
			e.unsupported("bad integer literal %q", x.Val)
		}
		return intVal(bigLit(bi))
	case EStr:
		return Val{T: StrLit(x.Val), S: SStr, Ty: types.Typ[types.String]}
	case EBool:
		if x.Val {
			return boolVal("true")
		}
		return boolVal("false")
	case ENil:
		return Val{T: "nil", S: "nil"}
	case EIdent:
		v := e.evalIdent(x.Name, env)
		e.observe(x, v, env)
		return v
	case EOld:
		n := *env
		n.st = env.old
		n.inOld = true
		return e.evalSpec(x.X, &n)
	case EUnary:
		v := e.evalSpec(x.X, env)
		if x.Op == "!" {
			return boolVal(Not(v.T))
		}
		return intVal("(- " + v.T + ")")
	case EBinary:
		return e.evalBinary(x, env)
	case ESel:
		v := e.evalSel(x, env)
		e.observe(x, v, env)
		return v
	case EIndex:
		v := e.evalIndex(x, env)
		e.observe(x, v, env)
		return v
	case ESlice:
		v := e.evalSpec(x.X, env)
		if v.S != SSlice {
			e.unsupported("slice expression on non-slice")
		}
		lo, hi := "0", ""+e.slen(v.T)+""
		if x.Lo != nil {
			lo = e.evalSpec(x.Lo, env).T
		}
		if x.Hi != nil {
			hi = e.evalSpec(x.Hi, env).T
		}
		return Val{T: "(mk_slice "+e.sbase(v.T)+" (+ "+e.soff(v.T)+" " + lo + ") (- " + hi + " " + lo + ") (- "+e.scap(v.T)+" " + lo + "))", S: SSlice, Ty: v.Ty}
	case EUpd:
		m := e.evalSpec(x.X, env)
		k := e.evalSpec(x.K, env)
		v := e.evalSpec(x.V, env)
		if strings.HasPrefix(m.T, "ghostmap:") {
			parts := strings.SplitN(m.T[len("ghostmap:"):], "\x00", 2)
			return Val{T: "ghostmap:" + Sto(parts[0], k.T, "true") + "\x00" + Sto(parts[1], k.T, v.T), S: m.S}
		}
		return Val{T: Sto(m.T, k.T, e.coerce(v, k, m).T), S: m.S, Ty: m.Ty}
	case ECall:
		v := e.evalCall(x, env)
		if v.S == SInt || v.S == SBool {
			e.observe(x, v, env)
		}
		return v
	case EQuant:
		nb := *env
		nb.bound = true
		n := &nb
		var binders, guards []string
		// binder names are a function of the quantified expression: the same clause evaluated at two places (a callee's
		// postcondition and the caller's identical one) then yields syntactically identical formulas, which the solvers
		// recognise at once; a name already in scope would capture, so that case falls back to a fresh name
		qh := shortHash(exprKey(x))
		nbs := map[string]bool{}
		for k := range env.binders {
			nbs[k] = true
		}
		n.binders = nbs
		for _, qv := range x.Vars {
			s, ty := e.resolveType(qv.Type, nil)
			name := "q$" + qv.Name + "$" + qh
			if nbs[name] {
				name = e.Out.FreshName("q$" + qv.Name)
			}
			nbs[name] = true
			n = n.with(qv.Name, Val{T: Sym(name), S: s, Ty: ty})
			binders = append(binders, "("+Sym(name)+" "+string(s)+")")
			// a variable of a Go array type ranges over array *values*: zero outside the bounds (the engine keeps every
			// array value normalised, so that == on arrays is equality of the Go values)
			if ty != nil {
				if arr, ok := ty.Underlying().(*types.Array); ok && s == ArrSort(SInt, SInt) {
					guards = append(guards, "(arrnorm "+Sym(name)+" "+IntLit(arr.Len())+")")
				}
			}
		}
		body := e.evalSpec(x.Body, n)
		if len(guards) > 0 {
			if x.Forall {
				body.T = Imp(And(guards...), body.T)
			} else {
				body.T = And(append(guards, body.T)...)
			}
		}
		q := "exists"
		if x.Forall {
			q = "forall"
		}
		inner := body.T
		if x.Forall {
			var names []string
			for _, qv := range x.Vars {
				names = append(names, n.vars[qv.Name].T)
			}
			if trig := triggerCandidates(body.T, names); len(trig) > 0 {
				inner = "(! " + body.T
				for _, t := range trig {
					inner += " :pattern (" + t + ")"
				}
				inner += ")"
			}
		}
		plain := "(" + q + " (" + strings.Join(binders, " ") + ") " + body.T + ")"
		if inner == body.T {
			return boolVal(plain)
		}
		// both the solver's own trigger choice and our alternatives (logically the same formula twice)
		return boolVal("(and " + plain + " (" + q + " (" + strings.Join(binders, " ") + ") " + inner + "))")
	case ELet:
		v := e.evalSpec(x.Val, env)
		return e.evalSpec(x.Body, env.with(x.Name, v))
	case EIf:
		c := e.evalSpec(x.C, env)
		a := e.evalSpec(x.A, env)
		b := e.evalSpec(x.B, env)
		a, b = e.unify(a, b)
		r := a
		r.T = Ite(c.T, a.T, b.T)
		return r
	}
	e.unsupported("spec expression %T", x)
	return Val{}
}

// unify handles nil against typed values.
func (e *Exec) unify(a, b Val) (Val, Val) {
	if a.S == "nil" && b.S != "nil" {
		a = e.nilOf(b)
	}
	if b.S == "nil" && a.S != "nil" {
		b = e.nilOf(a)
	}
	return a, b
}

func (e *Exec) nilOf(like Val) Val {
	switch like.S {
	case SSlice:
		return Val{T: "nil_slice", S: SSlice, Ty: like.Ty}
	case SAny:
		return Val{T: "anynil", S: SAny, Ty: like.Ty}
	}
	return Val{T: "0", S: like.S, Ty: like.Ty}
}

func (e *Exec) coerce(v, _ Val, _ Val) Val { return v }

func (e *Exec) evalIdent(name string, env *Env) Val {
	if v, ok := env.vars[name]; ok {
		return e.derefCell(v, env)
	}
	if name == "result" && env.result != nil {
		return *env.result
	}
	if strings.HasPrefix(name, "result") && env.result != nil && env.result.Tup != nil {
		if i, err := strconv.Atoi(name[6:]); err == nil && i < len(env.result.Tup) {
			return env.result.Tup[i]
		}
	}
	// r0, r1, ...: components of a tuple-valued variable r (results of a lemma's 'call ... -> r')
	if n := len(name); n > 1 && name[n-1] >= '0' && name[n-1] <= '9' {
		if v, ok := env.vars[name[:n-1]]; ok && v.Tup != nil && int(name[n-1]-'0') < len(v.Tup) {
			return v.Tup[name[n-1]-'0']
		}
	}
	if c, ok := e.P.Spec.Consts[name]; ok {
		x, err := ParseExpr(c)
		if err != nil {
			e.unsupported("const %s: %v", name, err)
		}
		return e.evalSpec(x, env)
	}
	if g, ok := e.P.Spec.Ghosts[name]; ok {
		kind, comps, _, _ := e.ghostComps(g)
		switch kind {
		case "map":
			return Val{T: "ghostmap:" + e.get(env.st, comps[0].name, comps[0].sort) + "\x00" + e.get(env.st, comps[1].name, comps[1].sort), S: Sort("ghostmap:" + string(comps[0].sort) + "\x00" + string(comps[1].sort))}
		default:
			return Val{T: e.get(env.st, comps[0].name, comps[0].sort), S: comps[0].sort}
		}
	}
	if env.fr != nil {
		if v, ok := env.fr.lookupName(e, name, env.block); ok {
			return e.derefCell(v, env)
		}
		// package-level object
		if env.fr.fn.Pkg != nil {
			if v, ok := e.pkgObject(env.fr.fn.Pkg.Pkg, name, env); ok {
				return v
			}
		}
	}
	if env.fr == nil && e.ctxPkg != nil {
		if v, ok := e.pkgObject(e.ctxPkg, name, env); ok {
			return v
		}
	}
	if env.home != nil {
		if v, ok := e.pkgObject(env.home, name, env); ok {
			return v
		}
	}
	e.unsupported("unknown identifier %q in specification", name)
	return Val{}
}

// derefCell reads local variables that live in cells (escaping locals, captured variables).
func (e *Exec) derefCell(v Val, env *Env) Val {
	if v.Addr != nil && (v.Addr.Kind == "cell" || v.Addr.Kind == "global") {
		return Val{T: e.loadAddr(v.Addr, env.st), S: e.sortOf(v.Addr.Ty), Ty: v.Addr.Ty}
	}
	if v.Addr != nil && v.Addr.Kind == "row" && v.Addr.Ty != nil {
		// a local array variable: its value is the row it lives in
		if _, isArr := v.Addr.Ty.Underlying().(*types.Array); isArr {
			return Val{T: e.loadAddr(v.Addr, env.st), S: e.sortOf(v.Addr.Ty), Ty: v.Addr.Ty}
		}
	}
	return v
}

func (e *Exec) pkgObject(pk *types.Package, name string, env *Env) (Val, bool) {
	obj := pk.Scope().Lookup(name)
	if obj == nil {
		return Val{}, false
	}
	switch o := obj.(type) {
	case *types.Const:
		return e.constantVal(o.Val(), o.Type()), true
	case *types.Var:
		sp := e.P.SSA.Package(pk)
		if sp == nil {
			return Val{}, false
		}
		g, ok := sp.Members[name].(*ssa.Global)
		if !ok {
			return Val{}, false
		}
		a := e.globalAddr(g)
		e.globalFacts(g, env.st)
		if a.Addr.Kind == "row" {
			return Val{T: e.loadAddr(a.Addr, env.st), S: e.sortOf(o.Type()), Ty: o.Type()}, true
		}
		return Val{T: e.loadAddr(a.Addr, env.st), S: e.sortOf(o.Type()), Ty: o.Type()}, true
	}
	return Val{}, false
}

func (e *Exec) constantVal(c constant.Value, t types.Type) Val {
	switch c.Kind() {
	case constant.Bool:
		if constant.BoolVal(c) {
			return boolVal("true")
		}
		return boolVal("false")
	case constant.String:
		return Val{T: StrLit(constant.StringVal(c)), S: SStr, Ty: t}
	case constant.Int:
		bi, _ := new(big.Int).SetString(c.ExactString(), 10)
		return Val{T: bigLit(bi), S: SInt, Ty: t}
	}
	e.unsupported("constant %s in specification", c)
	return Val{}
}

func isNumericSort(s Sort) bool { return s == SInt }

func (e *Exec) evalBinary(x EBinary, env *Env) Val {
	switch x.Op {
	case "&&":
		a := e.evalSpec(x.X, env)
		b := e.evalSpec(x.Y, env)
		return boolVal(And(a.T, b.T))
	case "||":
		a := e.evalSpec(x.X, env)
		b := e.evalSpec(x.Y, env)
		return boolVal(Or(a.T, b.T))
	case "==>":
		a := e.evalSpec(x.X, env)
		b := e.evalSpec(x.Y, env)
		return boolVal(Imp(a.T, b.T))
	case "<==>":
		a := e.evalSpec(x.X, env)
		b := e.evalSpec(x.Y, env)
		return boolVal(Eq(a.T, b.T))
	case "in":
		k := e.evalSpec(x.X, env)
		m := e.evalSpec(x.Y, env)
		if strings.HasPrefix(m.T, "ghostmap:") {
			parts := strings.SplitN(m.T[len("ghostmap:"):], "\x00", 2)
			return boolVal(Sel(parts[0], k.T))
		}
		if m.Ty != nil {
			if mt, ok := m.Ty.Underlying().(*types.Map); ok {
				d, _, ds, _ := e.mapHeaps(mt)
				return boolVal(And(Not(Eq(m.T, "0")), Sel(Sel(e.get(env.st, d, ds), m.T), k.T)))
			}
		}
		if _, v, ok := arrayParts(m.S); ok && v == SBool {
			return boolVal(Sel(m.T, k.T))
		}
		e.unsupported("'in' on %s", m.S)
	}
	a := e.evalSpec(x.X, env)
	b := e.evalSpec(x.Y, env)
	if (x.Op == "==" || x.Op == "!=") && ((a.S == "nil" && b.S == SSlice) || (b.S == "nil" && a.S == SSlice)) {
		// a slice is nil iff it has no backing store (Go's s == nil)
		sl := a
		if a.S == "nil" {
			sl = b
		}
		t := Eq(e.sbase(sl.T), "0")
		if x.Op == "!=" {
			t = Not(t)
		}
		return boolVal(t)
	}
	a, b = e.unify(a, b)
	switch x.Op {
	case "==", "!=":
		var t string
		if strings.HasPrefix(a.T, "ghostmap:") && strings.HasPrefix(b.T, "ghostmap:") {
			pa := strings.SplitN(a.T[len("ghostmap:"):], "\x00", 2)
			pb := strings.SplitN(b.T[len("ghostmap:"):], "\x00", 2)
			t = And(Eq(pa[0], pb[0]), Eq(pa[1], pb[1]))
		} else {
			if a.S != b.S && !(a.S == "nil" && b.S == "nil") {
				// interface vs concrete
				if a.S == SAny && b.Ty != nil {
					b = Val{T: e.box(b, b.Ty), S: SAny}
				} else if b.S == SAny && a.Ty != nil {
					a = Val{T: e.box(a, a.Ty), S: SAny}
				} else {
					e.unsupported("comparison of %s and %s in specification", a.S, b.S)
				}
			}
			t = Eq(a.T, b.T)
		}
		if x.Op == "!=" {
			t = Not(t)
		}
		return boolVal(t)
	case "<", "<=", ">", ">=":
		if a.S == SStr {
			switch x.Op {
			case "<":
				return boolVal("(str.< " + a.T + " " + b.T + ")")
			case "<=":
				return boolVal("(str.<= " + a.T + " " + b.T + ")")
			case ">":
				return boolVal("(str.< " + b.T + " " + a.T + ")")
			default:
				return boolVal("(str.<= " + b.T + " " + a.T + ")")
			}
		}
		return boolVal("(" + x.Op + " " + a.T + " " + b.T + ")")
	case "+":
		if a.S == SStr {
			return Val{T: "(str.++ " + a.T + " " + b.T + ")", S: SStr, Ty: a.Ty}
		}
		return intVal("(+ " + a.T + " " + b.T + ")")
	case "-":
		return intVal("(- " + a.T + " " + b.T + ")")
	case "*":
		return intVal("(* " + a.T + " " + b.T + ")")
	case "/":
		return intVal("(div " + a.T + " " + b.T + ")")
	case "%":
		return intVal("(mod " + a.T + " " + b.T + ")")
	}
	e.unsupported("operator %s in specification", x.Op)
	return Val{}
}

func (e *Exec) evalSel(x ESel, env *Env) Val {
	// package-qualified name?
	if id, ok := x.X.(EIdent); ok {
		if _, isVar := env.vars[id.Name]; !isVar {
			shadow := false
			if env.fr != nil {
				_, shadow = env.fr.lookupName(e, id.Name, env.block)
			}
			if _, isGhost := e.P.Spec.Ghosts[id.Name]; !shadow && !isGhost {
				var from *types.Package
				if env.home != nil {
					from = env.home
				} else if env.fr != nil && env.fr.fn.Pkg != nil {
					from = env.fr.fn.Pkg.Pkg
				} else if e.curFrame != nil && e.curFrame.fn.Pkg != nil {
					from = e.curFrame.fn.Pkg.Pkg
				} else {
					from = e.ctxPkg
				}
				if pk := e.P.FindPackage(id.Name, from); pk != nil {
					if v, ok := e.pkgObject(pk, x.Name, env); ok {
						return v
					}
					e.unsupported("unknown member %s.%s in specification", id.Name, x.Name)
				}
			}
		}
	}
	v := e.evalSpec(x.X, env)
	if v.Tup != nil {
		i, err := strconv.Atoi(x.Name)
		if err != nil || i >= len(v.Tup) {
			e.unsupported("bad tuple selector .%s", x.Name)
		}
		return v.Tup[i]
	}
	if v.Ty == nil {
		e.unsupported("field selection .%s on untyped value", x.Name)
	}
	t := v.Ty
	ptr := false
	if p, ok := t.Underlying().(*types.Pointer); ok {
		t = p.Elem()
		ptr = true
	}
	su, ok := t.Underlying().(*types.Struct)
	if !ok {
		e.unsupported("field selection .%s on %s", x.Name, v.Ty)
	}
	for i := 0; i < su.NumFields(); i++ {
		if su.Field(i).Name() != x.Name {
			continue
		}
		ft := su.Field(i).Type()
		if ptr || v.SRef != "" {
			h, hs, _ := e.fieldHeap(t, i)
			ref := v.SRef
			if ptr {
				ref = e.asRef(v)
			}
			if isStructT(ft) {
				// nested struct: a value (token) that also knows where its fields live
				sub := e.subRef(h, ref)
				return Val{T: e.loadStruct(ft, sub, env.st), S: SInt, Ty: ft, SRef: sub}
			}
			if arr, ok := ft.Underlying().(*types.Array); ok {
				eh, ehs := e.elemHeap(arr.Elem())
				return Val{T: Sel(e.get(env.st, eh, ehs), e.subRef(h, ref)), S: e.sortOf(ft), Ty: ft}
			}
			return Val{T: Sel(e.get(env.st, h, hs), ref), S: e.sortOf(ft), Ty: ft}
		}
		proj := e.Out.DeclareFun("SF$"+e.typeName(t)+"."+x.Name, []Sort{SInt}, e.sortOf(ft))
		return Val{T: App(proj, v.T), S: e.sortOf(ft), Ty: ft}
	}
	// promoted fields through embedded structs (one level)
	for i := 0; i < su.NumFields(); i++ {
		f := su.Field(i)
		if !f.Embedded() {
			continue
		}
		inner := ESel{X: ESel{X: x.X, Name: f.Name()}, Name: x.Name}
		return e.evalSel(inner, env)
	}
	e.unsupported("no field %s in %s", x.Name, t)
	return Val{}
}

func (e *Exec) evalIndex(x EIndex, env *Env) Val {
	v := e.evalSpec(x.X, env)
	i := e.evalSpec(x.I, env)
	if strings.HasPrefix(v.T, "ghostmap:") {
		parts := strings.SplitN(v.T[len("ghostmap:"):], "\x00", 2)
		_, vs, _ := arrayParts(Sort(strings.SplitN(string(v.S)[len("ghostmap:"):], "\x00", 2)[1]))
		return Val{T: Sel(parts[1], i.T), S: vs}
	}
	if v.S == SBytes {
		return intVal("(select (barr " + v.T + ") " + i.T + ")")
	}
	if v.S == SStr {
		return intVal("(str.to_code (str.at " + v.T + " " + i.T + "))")
	}
	if v.Ty != nil {
		switch t := v.Ty.Underlying().(type) {
		case *types.Slice:
			h, hs := e.elemHeap(t.Elem())
			return Val{T: Sel(Sel(e.get(env.st, h, hs), ""+e.sbase(v.T)+""), elemIdx(e.soff(v.T), i.T)), S: e.sortOf(t.Elem()), Ty: t.Elem()}
		case *types.Array:
			return Val{T: Sel(v.T, i.T), S: e.sortOf(t.Elem()), Ty: t.Elem()}
		case *types.Map:
			// Go semantics: the zero value for an absent key (and for a nil map)
			d, vh, ds, vs := e.mapHeaps(t)
			has := And(Not(Eq(v.T, "0")), Sel(Sel(e.get(env.st, d, ds), v.T), i.T))
			return Val{T: Ite(has, Sel(Sel(e.get(env.st, vh, vs), v.T), i.T), e.zeroOf(t.Elem())), S: e.sortOf(t.Elem()), Ty: t.Elem()}
		case *types.Pointer:
			if arr, ok := t.Elem().Underlying().(*types.Array); ok {
				h, hs := e.elemHeap(arr.Elem())
				return Val{T: Sel(Sel(e.get(env.st, h, hs), e.asRef(v)), i.T), S: e.sortOf(arr.Elem()), Ty: arr.Elem()}
			}
		}
	}
	if _, vs, ok := arrayParts(v.S); ok {
		return Val{T: Sel(v.T, i.T), S: vs}
	}
	e.unsupported("index on %s", v.S)
	return Val{}
}

func (e *Exec) evalCall(x ECall, env *Env) Val {
	arg := func(i int) Val {
		if i >= len(x.Args) {
			e.unsupported("%s: missing argument %d", x.Fun, i)
		}
		return e.evalSpec(x.Args[i], env)
	}
	switch x.Fun {
	case "len":
		v := arg(0)
		switch {
		case v.S == SSlice:
			return intVal(""+e.slen(v.T)+"")
		case v.S == SStr:
			return intVal("(str.len " + v.T + ")")
		case v.S == SBytes:
			return intVal("(blen " + v.T + ")")
		}
		if v.Ty != nil {
			switch t := v.Ty.Underlying().(type) {
			case *types.Array:
				return intVal(IntLit(t.Len()))
			case *types.Map:
				d, _, ds, _ := e.mapHeaps(t)
				f := e.Out.DeclareFun("card$"+string(e.sortOf(t.Key())), []Sort{ArrSort(e.sortOf(t.Key()), SBool)}, SInt)
				return intVal(Ite(Eq(v.T, "0"), "0", App(f, Sel(e.get(env.st, d, ds), v.T))))
			}
		}
		e.unsupported("len of %s", v.S)
	case "cap":
		return intVal("(s_cap " + arg(0).T + ")")
	case "base":
		return intVal("(s_base " + arg(0).T + ")")
	case "off":
		return intVal("(s_off " + arg(0).T + ")")
	case "pad32":
		// the [32]byte obtained by copying a byte slice into a zeroed [32]byte, as Bytes
		v := arg(0)
		h, hs := e.elemHeap(types.Typ[types.Uint8])
		return Val{T: "(mkb 32 (take32 " + Sel(e.get(env.st, h, hs), e.sbase(v.T)) + " " + e.soff(v.T) + " " + e.slen(v.T) + "))", S: SBytes}
	case "key48":
		// the [48]byte value obtained by copying a byte slice into a zeroed [48]byte
		v := arg(0)
		h, hs := e.elemHeap(types.Typ[types.Uint8])
		return Val{T: "(key48 " + Sel(e.get(env.st, h, hs), e.sbase(v.T)) + " " + e.soff(v.T) + " " + e.slen(v.T) + ")", S: ArrSort(SInt, SInt), Ty: types.NewArray(types.Typ[types.Uint8], 48)}
	case "fieldaddr":
		// fieldaddr(p, "f"): the address of the (struct-typed) field f of the struct p points to
		v := arg(0)
		fs, ok := x.Args[1].(EStr)
		if !ok || v.Ty == nil {
			e.unsupported("fieldaddr(pointer, \"field\")")
		}
		pt, ok := v.Ty.Underlying().(*types.Pointer)
		if !ok {
			e.unsupported("fieldaddr: not a pointer")
		}
		su, ok := pt.Elem().Underlying().(*types.Struct)
		if !ok {
			e.unsupported("fieldaddr: not a pointer to a struct")
		}
		for i := 0; i < su.NumFields(); i++ {
			if su.Field(i).Name() == fs.Val {
				h, _, _ := e.fieldHeap(pt.Elem(), i)
				return Val{T: e.subRef(h, v.T), S: SInt, Ty: types.NewPointer(su.Field(i).Type())}
			}
		}
		e.unsupported("fieldaddr: no field %s", fs.Val)
		return Val{}
	case "box":
		// box(x): the interface value holding x (dynamic type = the static type of x)
		v := arg(0)
		if v.Ty == nil {
			e.unsupported("box() of a value without a Go type")
		}
		return Val{T: e.box(v, v.Ty), S: SAny, Ty: types.NewInterfaceType(nil, nil)}
	case "bkey48":
		// bkey48(b): the [48]byte value obtained by copying the bytes b into a zeroed [48]byte
		b := arg(0)
		return Val{T: "(key48 (barr " + b.T + ") 0 (blen " + b.T + "))", S: ArrSort(SInt, SInt), Ty: types.NewArray(types.Typ[types.Uint8], 48)}
	case "withtag":
		// withtag(a, t): the [N+1]byte array made of the [N]byte array a followed by the byte t
		v := arg(0)
		if v.Ty != nil {
			if arr, ok := v.Ty.Underlying().(*types.Array); ok {
				return Val{T: Sto(v.T, IntLit(arr.Len()), arg(1).T), S: ArrSort(SInt, SInt), Ty: types.NewArray(arr.Elem(), arr.Len()+1)}
			}
		}
		e.unsupported("withtag() of a non-array")
	case "raw":
		// raw(s, j): element j (absolute index) of the backing row of slice s
		v := arg(0)
		if v.Ty != nil {
			if t, ok := v.Ty.Underlying().(*types.Slice); ok {
				h, hs := e.elemHeap(t.Elem())
				return Val{T: Sel(Sel(e.get(env.st, h, hs), ""+e.sbase(v.T)+""), arg(1).T), S: e.sortOf(t.Elem()), Ty: t.Elem()}
			}
		}
		e.unsupported("raw() of %s", v.S)
	case "bytes":
		v := arg(0)
		if v.S == SSlice {
			return Val{T: e.snapshotBytes(v.T, env.st), S: SBytes}
		}
		if v.Ty != nil {
			if arr, ok := v.Ty.Underlying().(*types.Array); ok {
				// same shape as the snapshot of a slice over the whole array
				return Val{T: "(snapb " + v.T + " 0 " + IntLit(arr.Len()) + ")", S: SBytes}
			}
		}
		e.unsupported("bytes() of %s", v.S)
	case "blen":
		return intVal("(blen " + arg(0).T + ")")
	case "bat":
		return intVal("(select (barr " + arg(0).T + ") " + arg(1).T + ")")
	case "bapp":
		return Val{T: "(bapp " + arg(0).T + " " + arg(1).T + ")", S: SBytes}
	case "bnorm":
		return boolVal("(bnormdef " + arg(0).T + ")")
	case "bnormdef":
		return boolVal("(bnormdef " + arg(0).T + ")")
	case "bappdef":
		return Val{T: "(bapp " + arg(0).T + " " + arg(1).T + ")", S: SBytes}
	case "errstr":
		return Val{T: "(errstr " + arg(0).T + ")", S: SStr, Ty: types.Typ[types.String]}
	case "fresh":
		// allocated by this call / function: above the old top
		v := arg(0)
		ref := v.T
		if v.S == SSlice {
			ref = ""+e.sbase(v.T)+""
		}
		return boolVal("(> " + ref + " " + e.top(env.old) + ")")
	case "allocated":
		v := arg(0)
		ref := v.T
		if v.S == SSlice {
			ref = ""+e.sbase(v.T)+""
		}
		return boolVal("(and (<= " + ref + " " + e.top(env.st) + ") (>= " + ref + " (- 1000)))")
	case "unchangedElems":
		// unchangedElems("T"): every []T element row that existed at function entry still has its entry contents
		ts, ok := x.Args[0].(EStr)
		if !ok {
			e.unsupported("unchangedElems(\"type\")")
		}
		_, ty := e.resolveType(ts.Val, nil)
		h, hs := e.elemHeap(ty)
		r := Sym(e.Out.FreshName("ue$r"))
		i := Sym(e.Out.FreshName("ue$i"))
		cur, old := e.get(env.st, h, hs), e.get(env.old, h, hs)
		if cur == old {
			return boolVal("true")
		}
		return boolVal("(forall ((" + r + " Int) (" + i + " Int)) (! (=> (<= (owner " + r + ") " + e.top(env.old) + ") (= (select (select " + cur + " " + r + ") " + i + ") (select (select " + old + " " + r + ") " + i + "))) :pattern ((select (select " + cur + " " + r + ") " + i + "))))")
	case "unchangedField":
		// unchangedField("pkg.T", "F"): field F of every T object that existed at function entry still has its entry value
		ts, ok := x.Args[0].(EStr)
		fs, ok2 := x.Args[1].(EStr)
		if !ok || !ok2 {
			e.unsupported("unchangedField(\"type\", \"field\")")
		}
		_, ty := e.resolveType(ts.Val, nil)
		if p, isP := ty.Underlying().(*types.Pointer); isP {
			ty = p.Elem()
		}
		su, isS := ty.Underlying().(*types.Struct)
		if !isS {
			e.unsupported("unchangedField: %s is not a struct", ts.Val)
		}
		for i := 0; i < su.NumFields(); i++ {
			if su.Field(i).Name() != fs.Val {
				continue
			}
			h, hs, _ := e.fieldHeap(ty, i)
			cur, old := e.get(env.st, h, hs), e.get(env.old, h, hs)
			if cur == old {
				return boolVal("true")
			}
			r := Sym(e.Out.FreshName("uf$r"))
			return boolVal("(forall ((" + r + " Int)) (! (=> (<= (owner " + r + ") " + e.top(env.old) + ") (= (select " + cur + " " + r + ") (select " + old + " " + r + "))) :pattern ((select " + cur + " " + r + "))))")
		}
		e.unsupported("unchangedField: no field %s in %s", fs.Val, ts.Val)
		return Val{}
	case "funcref":
		// funcref("pkg.Func$1"): the value of a (dirk) function or closure
		ts, ok := x.Args[0].(EStr)
		if !ok {
			e.unsupported("funcref(\"pkg.Func\")")
		}
		name := ts.Val
		if i := strings.LastIndex(name, "."); i > 0 && !strings.Contains(name, "/") {
			var from *types.Package
			if e.curFrame != nil && e.curFrame.fn.Pkg != nil {
				from = e.curFrame.fn.Pkg.Pkg
			} else {
				from = e.ctxPkg
			}
			if pk := e.P.FindPackage(name[:i], from); pk != nil {
				name = pk.Path() + name[i:]
			}
		}
		if e.P.FindFunc(name) == nil {
			e.unsupported("funcref: unknown function %q", name)
		}
		return intVal(e.funcSym(name))
	case "implements":
		// implements(x, "pkg.Iface"): the dynamic type of x implements the interface (same predicate the type switch uses)
		v := arg(0)
		ts, ok := x.Args[1].(EStr)
		if !ok {
			e.unsupported("implements(x, \"pkg.Iface\")")
		}
		_, ty := e.resolveType(ts.Val, nil)
		impl := e.Out.DeclareFun("implements$"+e.typeName(ty), []Sort{SInt}, SBool)
		return boolVal("(and " + Not(Eq(v.T, "anynil")) + " " + App(impl, "(typeof "+v.T+")") + ")")
	case "tagof":
		ts, ok := x.Args[0].(EStr)
		if !ok {
			e.unsupported("tagof(\"type\")")
		}
		_, ty := e.resolveType(ts.Val, nil)
		return intVal(IntLit(int64(e.P.typeID(ty))))
	case "staticerr":
		// true exactly for the package-level error values made by errors.New (see globalFacts)
		v := arg(0)
		return boolVal("(and ((_ is any_i) " + v.T + ") (= (a_tag " + v.T + ") " + IntLit(int64(e.P.typeID(types.Typ[types.UnsafePointer]))) + "))")
	case "typeof":
		return intVal("(typeof " + arg(0).T + ")")
	case "hastype":
		v := arg(0)
		s, ok := x.Args[1].(EStr)
		if !ok {
			e.unsupported("hastype(x, \"type\")")
		}
		_, ty := e.resolveType(s.Val, nil)
		return boolVal(e.hasType(v.T, ty))
	case "unbox":
		v := arg(0)
		s, ok := x.Args[1].(EStr)
		if !ok {
			e.unsupported("unbox(x, \"type\")")
		}
		srt, ty := e.resolveType(s.Val, nil)
		return Val{T: e.unbox(v.T, ty), S: srt, Ty: ty}
	case "min":
		a, b := arg(0), arg(1)
		return intVal("(ite (< " + a.T + " " + b.T + ") " + a.T + " " + b.T + ")")
	case "max":
		a, b := arg(0), arg(1)
		return intVal("(ite (> " + a.T + " " + b.T + ") " + a.T + " " + b.T + ")")
	case "deferred":
		// the set of keys collected by the (unique) defer-in-loop of this function
		if env.fr != nil {
			for _, d := range env.fr.defers {
				if d.set != "" {
					srt := ArrSort(d.ksort, SBool)
					return Val{T: e.get(env.st, d.set, srt), S: srt}
				}
			}
			for _, b := range env.fr.fn.Blocks {
				for _, ins := range b.Instrs {
					if df, ok := ins.(*ssa.Defer); ok && inLoop(b) && len(df.Common().Args) == 1 {
						srt := ArrSort(e.sortOf(df.Common().Args[0].Type()), SBool)
						return Val{T: e.get(env.st, deferSetName(df), srt), S: srt}
					}
				}
			}
		}
		e.unsupported("deferred() without a defer inside a loop")
	case "visited":
		// the visited set of the (unique) map iteration of the enclosing loop
		if env.fr != nil {
			// the iterator advanced in the header of the loop the clause belongs to; otherwise the only one of the function
			if env.block != nil {
				for _, ins := range env.block.Instrs {
					if nx, ok := ins.(*ssa.Next); ok {
						if name, ok := env.fr.iters[nx.Iter]; ok {
							srt := e.heapSorts[name]
							return Val{T: e.get(env.st, name, srt), S: srt}
						}
					}
				}
			}
			if len(env.fr.iters) == 1 {
				for _, name := range env.fr.iters {
					srt := e.heapSorts[name]
					return Val{T: e.get(env.st, name, srt), S: srt}
				}
			}
		}
		e.unsupported("visited() outside a map range loop (or ambiguous: several map loops and the clause is not a loop invariant)")
	case "domof":
		v := arg(0)
		if v.Ty != nil {
			if mt, ok := v.Ty.Underlying().(*types.Map); ok {
				d, _, ds, _ := e.mapHeaps(mt)
				return Val{T: Sel(e.get(env.st, d, ds), v.T), S: ArrSort(e.sortOf(mt.Key()), SBool)}
			}
		}
		if strings.HasPrefix(v.T, "ghostmap:") {
			parts := strings.SplitN(v.T[len("ghostmap:"):], "\x00", 2)
			srts := strings.SplitN(string(v.S)[len("ghostmap:"):], "\x00", 2)
			return Val{T: parts[0], S: Sort(srts[0])}
		}
		e.unsupported("domof of %s", v.S)
	case "strcat":
		t := arg(0).T
		for i := 1; i < len(x.Args); i++ {
			t = "(str.++ " + t + " " + arg(i).T + ")"
		}
		return Val{T: t, S: SStr, Ty: types.Typ[types.String]}
	case "prefixof":
		return boolVal("(str.prefixof " + arg(0).T + " " + arg(1).T + ")")
	case "suffixof":
		return boolVal("(str.suffixof " + arg(0).T + " " + arg(1).T + ")")
	case "contains":
		return boolVal("(str.contains " + arg(0).T + " " + arg(1).T + ")")
	case "indexof":
		return intVal("(str.indexof " + arg(0).T + " " + arg(1).T + " 0)")
	case "substr":
		return Val{T: "(str.substr " + arg(0).T + " " + arg(1).T + " " + arg(2).T + ")", S: SStr, Ty: types.Typ[types.String]}
	}
	fun := x.Fun
	if m, ok := e.SpecModel[fun]; ok {
		// refinement against a model: the interface's uninterpreted function is read as the implementation's definition
		fun = m
	}
	sf, ok := e.P.Spec.Funcs[fun]
	if !ok {
		e.unsupported("unknown spec function %q", fun)
	}
	if len(x.Args) != len(sf.Params) {
		e.unsupported("spec function %s expects %d arguments", x.Fun, len(sf.Params))
	}
	if sf.Defined {
		// uninterpreted symbol + definitional axiom (stated once per script, triggered on applications of the symbol)
		var sorts []Sort
		var terms []string
		for i, p := range sf.Params {
			srt, _ := e.resolveType(p.Type, nil)
			sorts = append(sorts, srt)
			v := arg(i)
			if v.S == "nil" {
				v = e.nilOf(Val{S: srt})
			}
			terms = append(terms, v.T)
		}
		rs, rt := e.resolveType(sf.Result, nil)
		f := e.Out.DeclareFun("spec$"+sf.Name, sorts, rs)
		marker := "defax$" + sf.Name
		if _, done := e.Out.declared[Sym(marker)]; !done {
			e.Out.BeginGlobal()
			defer e.Out.EndGlobal()
			e.Out.Declare(marker, SBool)
			n := &Env{e: e, vars: map[string]Val{}, st: e.entry, old: e.entry, bound: true}
			if sf.Pkg != "" {
				if pk := e.P.ByPath[sf.Pkg]; pk != nil {
					n.home = pk.Types
				}
			}
			var binders, names []string
			for i, p := range sf.Params {
				_, ty := e.resolveType(p.Type, n.home)
				nm := Sym("d$" + sf.Name + "$" + p.Name)
				binders = append(binders, "("+nm+" "+string(sorts[i])+")")
				names = append(names, nm)
				n.vars[p.Name] = Val{T: nm, S: sorts[i], Ty: ty}
			}
			body := e.evalSpec(sf.Body, n)
			app := App(f, names...)
			e.Out.Assert("(forall (" + strings.Join(binders, " ") + ") (! (= " + app + " " + body.T + ") :pattern (" + app + ")))")
		}
		return Val{T: App(f, terms...), S: rs, Ty: rt}
	}
	if sf.Body != nil && !(sf.Opaque && !e.reveal[sf.Name]) {
		// macro expansion in the current state
		n := &Env{e: e, vars: map[string]Val{}, st: env.st, old: env.old, fr: nil, result: env.result, bound: env.bound, inOld: env.inOld, obs: nil, home: env.home, binders: env.binders}
		var sfPkg *types.Package
		if sf.Pkg != "" {
			if pk := e.P.ByPath[sf.Pkg]; pk != nil {
				n.home = pk.Types
				sfPkg = pk.Types
			}
		}
		var lets []string
		for i, p := range sf.Params {
			v := arg(i)
			if v.S == "nil" {
				s, ty := e.resolveType(p.Type, sfPkg)
				v = e.nilOf(Val{S: s, Ty: ty})
			}
			if v.Ty == nil {
				if _, ty := e.resolveType(p.Type, sfPkg); ty != nil {
					v.Ty = ty
				}
			}
			// share large argument terms through a let binding
			if len(v.T) > 40 && v.S == SBytes {
				sym := Sym("lt$" + p.Name + "$" + shortHash(v.T))
				lets = append(lets, "("+sym+" "+v.T+")")
				v.T = sym
				n.bound = true // no top-level assertions about terms that mention the let-bound symbol
			}
			n.vars[p.Name] = v
		}
		r := e.evalSpec(sf.Body, n)
		if r.Ty == nil {
			if _, ty := e.resolveType(sf.Result, nil); ty != nil {
				r.Ty = ty
			}
		}
		if len(lets) > 0 {
			r.T = "(let (" + strings.Join(lets, " ") + ") " + r.T + ")"
		}
		return r
	}
	// uninterpreted
	var sorts []Sort
	var terms []string
	for i, p := range sf.Params {
		s, _ := e.resolveType(p.Type, nil)
		sorts = append(sorts, s)
		v := arg(i)
		if v.S == "nil" {
			v = e.nilOf(Val{S: s})
		}
		terms = append(terms, v.T)
	}
	rs, rt := e.resolveType(sf.Result, nil)
	f := e.Out.DeclareFun("spec$"+sf.Name, sorts, rs)
	if sf.Body == nil {
		e.P.Trusted["uninterpreted spec function: "+sf.Name] = true
	}
	if rt != nil && rs == ArrSort(SInt, SInt) {
		if arr, ok := rt.Underlying().(*types.Array); ok {
			// an uninterpreted function with a Go array result denotes array values (normalised)
			marker := "arrres$" + sf.Name
			if _, done := e.Out.declared[Sym(marker)]; !done {
				e.Out.BeginGlobal()
				e.Out.Declare(marker, SBool)
				var binders, names []string
				for i := range sf.Params {
					nm := Sym(fmt.Sprintf("r$%s$%d", sf.Name, i))
					binders = append(binders, "("+nm+" "+string(sorts[i])+")")
					names = append(names, nm)
				}
				app := App(f, names...)
				if len(binders) > 0 {
					e.Out.Assert("(forall (" + strings.Join(binders, " ") + ") (! (arrnorm " + app + " " + IntLit(arr.Len()) + ") :pattern (" + app + ")))")
				} else {
					e.Out.Assert("(arrnorm " + app + " " + IntLit(arr.Len()) + ")")
				}
				e.Out.EndGlobal()
			}
		}
	}
	return Val{T: App(f, terms...), S: rs, Ty: rt}
}

// ---- locations (modifies clauses) ----

type location struct {
	kind  string // ghost | heap
	comps []ghostComp
	key   string
	heap  string
	hs    Sort
	ref   string
	idx   string
	whole bool
	off          string // offset of the slice the range was written over (index-space hint for the frame obligations)
	lo, hi       string // element range [lo,hi) of the row (slice x[a:b] in a modifies clause)
	qv, qlo, qhi string // quantified location each(i, lo, hi, loc): the inner location for every qv in [qlo,qhi)
	qcond        string // optional condition of each(i, lo, hi, cond, loc)
	mono         bool   // location of a monotone (grow-only) ghost set
}

// inRange is the membership condition of the quantifier of an each-location ("true" for plain locations).
func (l location) quantRange() string {
	if l.qv == "" {
		return "true"
	}
	return And("(<= "+l.qlo+" "+l.qv+")", "(< "+l.qv+" "+l.qhi+")", l.qcond)
}

// exists wraps a condition mentioning the location's bound variable.
func (l location) exists(cond string) string {
	if l.qv == "" {
		return cond
	}
	return "(exists ((" + l.qv + " Int)) " + And(l.quantRange(), cond) + ")"
}

func (l location) forall(cond string) string {
	if l.qv == "" {
		return cond
	}
	return "(forall ((" + l.qv + " Int)) " + Imp(l.quantRange(), cond) + ")"
}

// member: the point (r, i) of a two-level heap (or r alone when i == "", or ghost key r) belongs to the location.
func (l location) member(r, i string) string {
	var c string
	switch {
	case l.kind == "ghost":
		if l.key == "" {
			return "true"
		}
		c = Eq(r, l.key)
	case l.whole:
		return "true"
	case i == "" || (l.idx == "" && l.lo == ""):
		c = Eq(r, l.ref)
	case l.idx != "":
		c = And(Eq(r, l.ref), Eq(i, l.idx))
	default:
		c = And(Eq(r, l.ref), "(<= "+l.lo+" "+i+")", "(< "+i+" "+l.hi+")")
	}
	return l.exists(c)
}

// evalLocs evaluates a modifies clause to one or more locations.
func (e *Exec) evalLocs(x Expr, env *Env) []location {
	if c, ok := x.(ECall); ok && c.Fun == "pointee" {
		// pointee(a): every field of the struct the boxed pointer a points to
		v := e.evalSpec(c.Args[0], env)
		br, known := e.boxInfo[v.T]
		if !known {
			e.unsupported("pointee(): argument is not a statically boxed pointer: %s", v.T)
		}
		ty, ref := br.ty, br.ref
		p, ok := ty.Underlying().(*types.Pointer)
		if !ok {
			e.unsupported("pointee(): boxed value is not a pointer")
		}
		su, ok := p.Elem().Underlying().(*types.Struct)
		if !ok {
			e.unsupported("pointee(): not a pointer to struct")
		}
		var out []location
		for i := 0; i < su.NumFields(); i++ {
			h, hs, _ := e.fieldHeap(p.Elem(), i)
			out = append(out, location{kind: "heap", heap: h, hs: hs, ref: ref})
		}
		return out
	}
	// Go maps: an entry m[k] (or mapall(m)) is a location in both the domain and the value heap
	if ix, ok := x.(EIndex); ok {
		if id, isID := ix.X.(EIdent); !isID || e.P.Spec.Ghosts[id.Name] == nil {
			v := e.evalSpec(ix.X, env)
			if v.Ty != nil {
				if mt, ok := v.Ty.Underlying().(*types.Map); ok {
					k := e.evalSpec(ix.I, env)
					d, vh, ds, vs := e.mapHeaps(mt)
					e.get(env.st, d, ds)
					e.get(env.st, vh, vs)
					return []location{{kind: "heap", heap: d, hs: ds, ref: v.T, idx: k.T}, {kind: "heap", heap: vh, hs: vs, ref: v.T, idx: k.T}}
				}
			}
		}
	}
	if c, ok := x.(ECall); ok && c.Fun == "each" {
		// each(i, lo, hi, loc): loc for every i in [lo,hi)
		if len(c.Args) != 4 && len(c.Args) != 5 {
			e.unsupported("each(i, lo, hi, [condition,] location)")
		}
		id, ok := c.Args[0].(EIdent)
		if !ok {
			e.unsupported("each(): first argument is the index variable")
		}
		lo := e.evalSpec(c.Args[1], env).T
		hi := e.evalSpec(c.Args[2], env).T
		name := Sym(e.Out.FreshName("q$" + id.Name))
		nb := *env
		nb.bound = true
		benv := nb.with(id.Name, Val{T: name, S: SInt, Ty: types.Typ[types.Int]})
		cond := ""
		if len(c.Args) == 5 {
			cond = e.evalSpec(c.Args[3], benv).T
		}
		inner := e.evalLocs(c.Args[len(c.Args)-1], benv)
		for k := range inner {
			if inner[k].qv != "" {
				e.unsupported("nested each()")
			}
			inner[k].qv, inner[k].qlo, inner[k].qhi, inner[k].qcond = name, lo, hi, cond
		}
		return inner
	}
	if c, ok := x.(ECall); ok && c.Fun == "mapall" {
		v := e.evalSpec(c.Args[0], env)
		if v.Ty != nil {
			if mt, ok := v.Ty.Underlying().(*types.Map); ok {
				d, vh, ds, vs := e.mapHeaps(mt)
				e.get(env.st, d, ds)
				e.get(env.st, vh, vs)
				return []location{{kind: "heap", heap: d, hs: ds, ref: v.T}, {kind: "heap", heap: vh, hs: vs, ref: v.T}}
			}
		}
		e.unsupported("mapall() of a non-map")
	}
	return []location{e.evalLoc(x, env)}
}

func (e *Exec) evalLoc(x Expr, env *Env) location {
	switch x := x.(type) {
	case EIdent:
		if g, ok := e.P.Spec.Ghosts[x.Name]; ok {
			_, comps, _, _ := e.ghostComps(g)
			return location{kind: "ghost", comps: comps, mono: g.Monotone}
		}
		// a local variable that lives in a cell (captured by a closure, or address taken)
		var cell *Addr
		if v, ok := env.vars[x.Name]; ok && v.Addr != nil {
			cell = v.Addr
		} else if env.fr != nil {
			if v, ok := env.fr.lookupName(e, x.Name, env.block); ok && v.Addr != nil {
				cell = v.Addr
			}
		}
		if cell != nil && cell.Kind == "cell" {
			e.get(env.st, cell.Heap, cell.HS)
			return location{kind: "heap", heap: cell.Heap, hs: cell.HS, ref: cell.Ref}
		}
		// a package-level variable of the function's own package
		var spkg *ssa.Package
		if env.fr != nil && env.fr.fn != nil && env.fr.fn.Pkg != nil {
			spkg = env.fr.fn.Pkg
		} else if env.home != nil {
			spkg = e.P.SSA.Package(env.home)
		} else if e.ctxPkg != nil {
			spkg = e.P.SSA.Package(e.ctxPkg)
		}
		if spkg != nil {
			if g, ok := spkg.Members[x.Name].(*ssa.Global); ok {
				if a := e.globalAddr(g).Addr; a != nil && a.Kind == "global" {
					e.get(env.st, a.Heap, a.HS)
					return location{kind: "heap", heap: a.Heap, hs: a.HS, whole: true}
				}
			}
		}
	case EIndex:
		if id, ok := x.X.(EIdent); ok {
			if g, ok := e.P.Spec.Ghosts[id.Name]; ok {
				if _, shadow := env.vars[id.Name]; !shadow {
					_, comps, _, _ := e.ghostComps(g)
					return location{kind: "ghost", comps: comps, key: e.evalSpec(x.I, env).T, mono: g.Monotone}
				}
			}
		}
		v := e.evalSpec(x.X, env)
		i := e.evalSpec(x.I, env)
		if v.Ty != nil {
			switch t := v.Ty.Underlying().(type) {
			case *types.Slice:
				h, hs := e.elemHeap(t.Elem())
				return location{kind: "heap", heap: h, hs: hs, ref: ""+e.sbase(v.T)+"", idx: elemIdx(e.soff(v.T), i.T)}
			}
		}
	case ESlice:
		v := e.evalSpec(x.X, env)
		if v.Ty != nil {
			if t, ok := v.Ty.Underlying().(*types.Slice); ok {
				h, hs := e.elemHeap(t.Elem())
				l := location{kind: "heap", heap: h, hs: hs, ref: "" + e.sbase(v.T) + ""}
				if x.Lo != nil || x.Hi != nil {
					lo, hi := "0", e.slen(v.T)
					if x.Lo != nil {
						lo = e.evalSpec(x.Lo, env).T
					}
					if x.Hi != nil {
						hi = e.evalSpec(x.Hi, env).T
					}
					l.lo, l.hi, l.off = elemIdx(e.soff(v.T), lo), elemIdx(e.soff(v.T), hi), e.soff(v.T)
				}
				return l
			}
		}
	case ESel:
		v := e.evalSpec(x.X, env)
		if v.Ty != nil && v.SRef != "" {
			if su, ok := v.Ty.Underlying().(*types.Struct); ok {
				for i := 0; i < su.NumFields(); i++ {
					if su.Field(i).Name() == x.Name {
						h, hs, _ := e.fieldHeap(v.Ty, i)
						return location{kind: "heap", heap: h, hs: hs, ref: v.SRef}
					}
				}
			}
		}
		if v.Ty != nil {
			if p, ok := v.Ty.Underlying().(*types.Pointer); ok {
				if su, ok := p.Elem().Underlying().(*types.Struct); ok {
					for i := 0; i < su.NumFields(); i++ {
						if su.Field(i).Name() == x.Name {
							h, hs, _ := e.fieldHeap(p.Elem(), i)
							return location{kind: "heap", heap: h, hs: hs, ref: e.asRef(v)}
						}
					}
				}
			}
		}
	case ECall:
		switch x.Fun {
		case "heap":
			if s, ok := x.Args[0].(EStr); ok {
				srt, known := e.heapSorts[s.Val]
				if !known {
					e.unsupported("modifies heap(%q): unknown heap array", s.Val)
				}
				return location{kind: "heap", heap: s.Val, hs: srt, whole: true}
			}
		case "elems":
			// the element heap of a slice type, wholesale
			v := e.evalSpec(x.Args[0], env)
			if t, ok := v.Ty.Underlying().(*types.Slice); ok {
				h, hs := e.elemHeap(t.Elem())
				e.get(env.st, h, hs)
				return location{kind: "heap", heap: h, hs: hs, whole: true}
			}
		case "fieldsof":
			// fieldsof("*pkg.T", "f"): the whole field array of a struct type
			ts, _ := x.Args[0].(EStr)
			fs, _ := x.Args[1].(EStr)
			_, ty := e.resolveType(ts.Val, nil)
			if p, ok := ty.Underlying().(*types.Pointer); ok {
				ty = p.Elem()
			}
			if su, ok := ty.Underlying().(*types.Struct); ok {
				for i := 0; i < su.NumFields(); i++ {
					if su.Field(i).Name() == fs.Val {
						h, hs, _ := e.fieldHeap(ty, i)
						e.get(env.st, h, hs)
						return location{kind: "heap", heap: h, hs: hs, whole: true}
					}
				}
			}
		case "fieldof":
			// fieldof(x, "f"): the whole field array of x's struct type
			v := e.evalSpec(x.Args[0], env)
			s, _ := x.Args[1].(EStr)
			if p, ok := v.Ty.Underlying().(*types.Pointer); ok {
				if su, ok := p.Elem().Underlying().(*types.Struct); ok {
					for i := 0; i < su.NumFields(); i++ {
						if su.Field(i).Name() == s.Val {
							h, hs, _ := e.fieldHeap(p.Elem(), i)
							e.get(env.st, h, hs)
							return location{kind: "heap", heap: h, hs: hs, whole: true}
						}
					}
				}
			}
		}
	}
	e.unsupported("expression does not denote a location: %s", fmt.Sprint(x))
	return location{}
}

func (e *Exec) observe(x Expr, v Val, env *Env) {
	// typing facts of heap reads (sound: every stored value is in range of its static type)
	if !env.bound && v.Ty != nil && v.T != "" && v.Tup == nil && v.Addr == nil {
		switch x.(type) {
		case ESel, EIndex:
			if _, isInt := intInfoOf(v.Ty); isInt {
				e.Out.Assert(e.rangeFact(v.T, v.Ty, env.st))
			} else if v.S == SSlice {
				e.Out.Assert(e.rangeFact(v.T, v.Ty, env.st))
			} else {
				switch v.Ty.Underlying().(type) {
				case *types.Pointer, *types.Map:
					// references stored in allocated objects point at or below the allocation top of that state
					e.Out.Assert(e.rangeFact(v.T, v.Ty, env.st))
				}
			}
		}
	}
	if env.obs == nil || env.bound || v.T == "" || v.Tup != nil || v.Addr != nil || strings.HasPrefix(v.T, "ghostmap:") || v.S == "nil" {
		return
	}
	txt := ExprString(x)
	if env.inOld {
		txt = "old(" + txt + ")"
	}
	for _, o := range *env.obs {
		if o.Text == txt {
			return
		}
	}
	if len(*env.obs) < 40 {
		*env.obs = append(*env.obs, ObsTerm{txt, v.T})
	}
}

// ExprString prints a specification expression.
// exprKey prints an expression completely (quantifiers and lets included): the key for deterministic binder names.
func exprKey(x Expr) string {
	switch x := x.(type) {
	case EUnary:
		return x.Op + exprKey(x.X)
	case EBinary:
		return "(" + exprKey(x.X) + " " + x.Op + " " + exprKey(x.Y) + ")"
	case ESel:
		return exprKey(x.X) + "." + x.Name
	case EIndex:
		return exprKey(x.X) + "[" + exprKey(x.I) + "]"
	case ESlice:
		lo, hi := "", ""
		if x.Lo != nil {
			lo = exprKey(x.Lo)
		}
		if x.Hi != nil {
			hi = exprKey(x.Hi)
		}
		return exprKey(x.X) + "[" + lo + ":" + hi + "]"
	case EUpd:
		return exprKey(x.X) + "[" + exprKey(x.K) + " := " + exprKey(x.V) + "]"
	case ECall:
		var as []string
		for _, a := range x.Args {
			as = append(as, exprKey(a))
		}
		return x.Fun + "(" + strings.Join(as, ", ") + ")"
	case EOld:
		return "old(" + exprKey(x.X) + ")"
	case EQuant:
		q := "exists"
		if x.Forall {
			q = "forall"
		}
		var vs []string
		for _, v := range x.Vars {
			vs = append(vs, v.Name+" "+v.Type)
		}
		return "(" + q + " " + strings.Join(vs, ", ") + " :: " + exprKey(x.Body) + ")"
	case ELet:
		return "(let " + x.Name + " = " + exprKey(x.Val) + " in " + exprKey(x.Body) + ")"
	case EIf:
		return "(if " + exprKey(x.C) + " then " + exprKey(x.A) + " else " + exprKey(x.B) + ")"
	}
	return ExprString(x)
}

func shortHash(s string) string {
	h := fnv.New64a()
	h.Write([]byte(s))
	return fmt.Sprintf("%x", h.Sum64()&0xffffffffff)
}

func ExprString(x Expr) string {
	switch x := x.(type) {
	case EIdent:
		return x.Name
	case EInt:
		return x.Val
	case EStr:
		return strconv.Quote(x.Val)
	case EBool:
		return fmt.Sprint(x.Val)
	case ENil:
		return "nil"
	case EUnary:
		return x.Op + ExprString(x.X)
	case EBinary:
		return "(" + ExprString(x.X) + " " + x.Op + " " + ExprString(x.Y) + ")"
	case ESel:
		return ExprString(x.X) + "." + x.Name
	case EIndex:
		return ExprString(x.X) + "[" + ExprString(x.I) + "]"
	case ESlice:
		return ExprString(x.X) + "[:]"
	case EUpd:
		return ExprString(x.X) + "[" + ExprString(x.K) + " := " + ExprString(x.V) + "]"
	case ECall:
		var as []string
		for _, a := range x.Args {
			as = append(as, ExprString(a))
		}
		return x.Fun + "(" + strings.Join(as, ", ") + ")"
	case EOld:
		return "old(" + ExprString(x.X) + ")"
	case EQuant:
		return "(quantified)"
	case ELet:
		return "let " + x.Name
	case EIf:
		return "if " + ExprString(x.C) + " then " + ExprString(x.A) + " else " + ExprString(x.B)
	}
	return "?"
}
