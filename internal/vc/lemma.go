package vc

import (
	"fmt"
	"go/types"
	"strings"
)

// LemmaStep is one line of a lemma body, kept in order.
type LemmaStep struct {
	Kind string // call | given | show
	Text string
	C    Clause
}

// VerifyLemma turns a lemma block into obligations. A lemma is a virtual caller: it declares typed variables,
// may 'call' contracts (assume requires, havoc frame, assume ensures — the hypotheses are generated from the
// contract text, so weakening a contract breaks the lemma), assumes 'given' clauses and must 'show' the rest.
func (e *Exec) VerifyLemma(l *Lemma, ctxPkg *types.Package) (err error) {
	defer func() {
		if r := recover(); r != nil {
			if u, ok := r.(unsupportedErr); ok {
				e.Unsupported = append(e.Unsupported, string(u))
				err = fmt.Errorf("unsupported: %s", string(u))
				return
			}
			panic(r)
		}
	}()
	e.ctxPkg = ctxPkg
	e.reveal = l.Reveal
	e.siteCount = map[string]int{}
	e.boxed = map[string]bool{}
	e.entry = &State{H: map[string]string{}}
	e.emitSpecPrelude()
	st := e.entry.clone()
	e.Out.Assert("(>= " + e.top(st) + " 0)")
	env := &Env{e: e, vars: map[string]Val{}, st: st, old: e.entry}
	for _, v := range l.Vars {
		s, ty := e.resolveType(v.Type, ctxPkg)
		sym := e.Out.Fresh("lv$"+v.Name, s)
		if ty != nil {
			e.Out.Assert(e.rangeFact(sym, ty, st))
			if arr, ok := ty.Underlying().(*types.Array); ok && s == ArrSort(SInt, SInt) {
				e.Out.Assert("(arrnorm " + sym + " " + IntLit(arr.Len()) + ")") // a variable of array type holds an array value
			}
		}
		env.vars[v.Name] = Val{T: sym, S: s, Ty: ty}
	}
	name := "lemma:" + l.Name
	for _, step := range l.Steps {
		switch step.Kind {
		case "given":
			e.Out.Assert(e.evalBool(step.C, env))
		case "show":
			t := e.evalBool(step.C, env)
			e.Out.AddObl(&Obligation{Name: name + "/show:" + step.C.Label, Func: name, Kind: "lemma", Label: step.C.Label, Text: step.C.Text, Src: step.C.Src, Formula: t, Inputs: e.obsOnly(), Obs: e.lastObs})
			e.Out.Assert(t)
		case "call":
			e.lemmaCall(step, env)
		case "havoc":
			// havoc <ghost>: the ghost variable takes an arbitrary value (e.g. "a second instance with another store")
			g, ok := e.P.Spec.Ghosts[strings.TrimSpace(step.Text)]
			if !ok {
				e.unsupported("%s: havoc of unknown ghost %q", step.C.Src, step.Text)
			}
			_, comps, _, _ := e.ghostComps(g)
			for _, c := range comps {
				e.havoc(env.st, c.name, c.sort)
			}
		case "establish":
			e.lemmaEstablish(name, step, env)
		case "mark":
			// old() refers to the state at the most recent mark
			env.old = env.st.clone()
		}
	}
	e.Out.AddObl(&Obligation{Name: name + "/cover:hypotheses", Func: name, Kind: "cover", Label: "hypotheses", Formula: "false", Expect: "sat", Text: "the lemma's hypotheses are satisfiable"})
	return nil
}

func (e *Exec) obsOnly() []string {
	var out []string
	for _, o := range e.lastObs {
		out = append(out, o.Term)
	}
	return out
}

// lemmaCall: "call <key>(a, b, ...) -> r"
func (e *Exec) lemmaCall(step LemmaStep, env *Env) {
	text := step.Text
	resName := ""
	if i := strings.LastIndex(text, "->"); i > 0 {
		resName = strings.TrimSpace(text[i+2:])
		text = strings.TrimSpace(text[:i])
	}
	open := strings.LastIndex(text, "(")
	if open < 0 || !strings.HasSuffix(text, ")") {
		e.unsupported("%s: call key(args) -> name", step.C.Src)
	}
	key := strings.TrimSpace(text[:open])
	ctr := e.P.Spec.Contracts[key]
	if ctr == nil {
		e.unsupported("%s: no contract %q", step.C.Src, key)
	}
	e.P.Trusted["used contract: "+ctr.Key] = true
	var args []Val
	for _, a := range splitTopLevel(text[open+1:len(text)-1], ',') {
		x, err := ParseExpr(a)
		if err != nil {
			e.unsupported("%s: %v", step.C.Src, err)
		}
		args = append(args, e.evalSpec(x, env))
	}
	names := ctr.Params
	var resT types.Type
	if fn := e.P.FindFunc(key); fn != nil {
		if len(names) == 0 {
			for _, p := range fn.Params {
				names = append(names, p.Name())
			}
		}
		resT = fn.Signature.Results()
		if fn.Signature.Results().Len() == 1 {
			resT = fn.Signature.Results().At(0).Type()
		}
	} else if m := e.P.findIfaceMethod(key); m != nil {
		sig := m.Type().(*types.Signature)
		if len(names) == 0 {
			names = append([]string{"self"}, sigParamNames(sig)...)
		}
		resT = sig.Results()
		if sig.Results().Len() == 1 {
			resT = sig.Results().At(0).Type()
		}
	} else {
		e.unsupported("%s: cannot resolve %q", step.C.Src, key)
	}
	if len(args) != len(names) {
		e.unsupported("%s: %s expects %d arguments (%v)", step.C.Src, key, len(names), names)
	}
	cenv := &Env{e: e, vars: map[string]Val{}, st: env.st, old: env.st}
	for i, n := range names {
		cenv.vars[n] = args[i]
	}
	pre := env.st.clone()
	cenv.st, cenv.old = pre, pre
	for _, c := range ctr.Requires {
		// the caller of the real function establishes these; the lemma assumes them
		e.Out.Assert(e.evalBool(c, cenv))
	}
	post := env.st.clone()
	for _, m := range ctr.Modifies {
		e.havocLoc(m, cenv, pre, post)
	}
	if !ctr.Flags["noalloc"] {
		old := e.top(pre)
		nt := e.havoc(post, "$top", SInt)
		e.Out.Assert("(>= " + nt + " " + old + ")")
	}
	var res Val
	if t, ok := resT.(*types.Tuple); !ok || t.Len() > 0 {
		res = e.freshTyped("lemma$"+resName, resT, post)
	}
	env2 := &Env{e: e, vars: cenv.vars, st: post, old: pre, result: &res}
	for _, c := range ctr.Ensures {
		e.Out.Assert(e.evalBool(c, env2))
	}
	for k := range env.st.H {
		delete(env.st.H, k)
	}
	for k, v := range post.H {
		env.st.H[k] = v
	}
	if resName != "" {
		env.vars[resName] = res
	}
}

// lemmaEstablish: "establish <method key>(<receiver expr>)" — every precondition conjunct of the method that speaks
// about the receiver alone (no other parameter, no ghost state) becomes an obligation for the given receiver value:
// the object invariant that the other units assume "at the interface" is what the constructor hands out.
func (e *Exec) lemmaEstablish(lname string, step LemmaStep, env *Env) {
	text := step.Text
	// "... except label label": labelled preconditions that speak about a collaborator's state rather than the object
	skip := map[string]bool{}
	if i := strings.Index(text, ") except "); i > 0 {
		for _, l := range strings.Fields(text[i+len(") except "):]) {
			skip[l] = true
		}
		text = text[:i+1]
	}
	open := strings.LastIndex(text, "(")
	if open < 0 || !strings.HasSuffix(text, ")") {
		e.unsupported("%s: establish key(receiver)", step.C.Src)
	}
	key := strings.TrimSpace(text[:open])
	ctr := e.P.Spec.Contracts[key]
	fn := e.P.FindFunc(key)
	if ctr == nil || fn == nil || fn.Signature.Recv() == nil {
		e.unsupported("%s: establish needs a contracted method, got %q", step.C.Src, key)
	}
	x, err := ParseExpr(text[open+1 : len(text)-1])
	if err != nil {
		e.unsupported("%s: %v", step.C.Src, err)
	}
	recv := e.evalSpec(x, env)
	names := []string{fn.Signature.Recv().Name()}
	for i := 0; i < fn.Signature.Params().Len(); i++ {
		names = append(names, fn.Signature.Params().At(i).Name())
	}
	if len(ctr.Params) > 0 {
		names = ctr.Params
	}
	var home *types.Package
	if pk := e.P.ByPath[ctr.Pkg]; pk != nil {
		home = pk.Types
	}
	cenv := &Env{e: e, vars: map[string]Val{names[0]: recv}, st: env.st, old: env.st, home: home}
	short := key
	if i := strings.LastIndex(short, "."); i >= 0 {
		short = short[i+1:]
	}
	n := 0
	for _, c := range ctr.Requires {
		if skip[c.Label] {
			e.P.Trusted["receiver precondition about a collaborator, not established by the constructor: "+key+": ["+c.Label+"] "+c.Text] = true
			continue
		}
		var conj []Expr
		var split func(x Expr)
		split = func(x Expr) {
			if b, ok := x.(EBinary); ok && b.Op == "&&" {
				split(b.X)
				split(b.Y)
				return
			}
			conj = append(conj, x)
		}
		split(c.E)
		for _, cx := range conj {
			only := true
			for _, pn := range names[1:] {
				if mentions(cx, pn) {
					only = false
				}
			}
			for g := range e.P.Spec.Ghosts {
				if mentions(cx, g) {
					only = false
				}
			}
			if !only || !mentions(cx, names[0]) {
				continue
			}
			n++
			d := c
			d.E = cx
			d.Text = ExprString(cx)
			t := e.evalBool(d, cenv)
			label := fmt.Sprintf("%s:%s#%d", short, c.Label, n)
			e.Out.AddObl(&Obligation{Name: lname + "/establish:" + label, Func: lname, Kind: "lemma", Label: label, Text: "receiver precondition of " + key + ": " + d.Text, Src: step.C.Src, Formula: t, Inputs: e.obsOnly(), Obs: e.lastObs})
			e.P.Trusted["receiver invariant proved for the value the constructor returns ("+lname+"): "+key+": "+d.Text] = true
		}
	}
	if n == 0 {
		e.unsupported("%s: %s has no receiver-only precondition", step.C.Src, key)
	}
}

// findIfaceMethod resolves "(pkg/path.Iface).Method".
func (p *Program) findIfaceMethod(key string) *types.Func {
	if !strings.HasPrefix(key, "(") {
		return nil
	}
	end := strings.Index(key, ").")
	if end < 0 {
		return nil
	}
	recv := strings.TrimPrefix(key[1:end], "*")
	meth := key[end+2:]
	dot := strings.LastIndex(recv, ".")
	if dot < 0 {
		return nil
	}
	pk := p.ByPath[recv[:dot]]
	if pk == nil {
		return nil
	}
	obj := pk.Types.Scope().Lookup(recv[dot+1:])
	if obj == nil {
		return nil
	}
	iface, ok := obj.Type().Underlying().(*types.Interface)
	if !ok {
		return nil
	}
	for i := 0; i < iface.NumMethods(); i++ {
		if iface.Method(i).Name() == meth {
			return iface.Method(i)
		}
	}
	return nil
}

// VerifyRefinement checks that the verified contract of an implementation method implies the contract of the
// interface method callers are verified against: the interface's preconditions imply the implementation's (those
// about the receiver alone are the receiver's object invariant and are assumed: established by its constructor),
// the implementation's frame is within the interface's, and the implementation's postconditions imply the
// interface's (clauses marked aux-ensures are auxiliary-variable bookkeeping and are not implementation obligations).
func (e *Exec) VerifyRefinement(implKey, ifaceKey string) (err error) {
	defer func() {
		if r := recover(); r != nil {
			if u, ok := r.(unsupportedErr); ok {
				e.Unsupported = append(e.Unsupported, string(u))
				err = fmt.Errorf("unsupported: %s", string(u))
				return
			}
			panic(r)
		}
	}()
	impl, iface := e.P.Spec.Contracts[implKey], e.P.Spec.Contracts[ifaceKey]
	fn := e.P.FindFunc(implKey)
	if impl == nil || fn == nil {
		return fmt.Errorf("no verified contract for %s", implKey)
	}
	m := e.P.findIfaceMethod(ifaceKey)
	if iface == nil || m == nil {
		return fmt.Errorf("no interface contract %s", ifaceKey)
	}
	e.P.Trusted["used contract: "+implKey] = true
	var implPkg, ifacePkg *types.Package
	if pk := e.P.ByPath[impl.Pkg]; pk != nil {
		implPkg = pk.Types
	}
	if pk := e.P.ByPath[iface.Pkg]; pk != nil {
		ifacePkg = pk.Types
	}
	e.ctxPkg = implPkg
	e.reveal = nil
	e.siteCount = map[string]int{}
	e.boxed = map[string]bool{}
	e.entry = &State{H: map[string]string{}}
	e.emitSpecPrelude()
	pre := e.entry.clone()
	e.Out.Assert("(>= " + e.top(pre) + " 0)")
	sig := fn.Signature
	var implNames []string
	var tys []types.Type
	if r := sig.Recv(); r != nil {
		implNames = append(implNames, r.Name())
		tys = append(tys, r.Type())
	}
	for i := 0; i < sig.Params().Len(); i++ {
		implNames = append(implNames, sig.Params().At(i).Name())
		tys = append(tys, sig.Params().At(i).Type())
	}
	if len(impl.Params) > 0 {
		implNames = impl.Params
	}
	ifaceNames := iface.Params
	if len(ifaceNames) == 0 {
		ifaceNames = append([]string{"self"}, sigParamNames(m.Type().(*types.Signature))...)
	}
	if len(ifaceNames) != len(implNames) {
		return fmt.Errorf("parameter lists differ: %v vs %v", implNames, ifaceNames)
	}
	implVars, ifaceVars := map[string]Val{}, map[string]Val{}
	for i := range implNames {
		v := e.freshTyped("rf$"+ifaceNames[i], tys[i], pre)
		if i == 0 && sig.Recv() != nil {
			// the interface value the caller holds is the boxed receiver
			ifaceVars[ifaceNames[i]] = Val{T: e.box(v, tys[i]), S: SAny, Ty: m.Type().(*types.Signature).Recv().Type()}
		} else {
			ifaceVars[ifaceNames[i]] = v
		}
		implVars[implNames[i]] = v
	}
	name := "refine:" + implKey
	envI := &Env{e: e, vars: ifaceVars, st: pre, old: pre, home: ifacePkg}
	envM := &Env{e: e, vars: implVars, st: pre, old: pre, home: implPkg}
	for _, c := range iface.Requires {
		e.Out.Assert(e.evalBool(c, envI))
	}
	var implReq []Clause
	for _, c := range impl.Requires {
		// conjuncts are judged one by one
		var split func(x Expr)
		split = func(x Expr) {
			if b, ok := x.(EBinary); ok && b.Op == "&&" {
				split(b.X)
				split(b.Y)
				return
			}
			d := c
			d.E = x
			d.Text = ExprString(x)
			implReq = append(implReq, d)
		}
		split(c.E)
	}
	for _, c := range implReq {
		onlyRecv := sig.Recv() != nil
		for i, n := range implNames {
			if i > 0 && mentions(c.E, n) {
				onlyRecv = false
			}
		}
		t := e.evalBool(c, envM)
		if onlyRecv {
			e.P.Trusted["receiver invariant (established by the constructor, assumed at the interface): "+implKey+": "+c.Text] = true
			e.Out.Assert(t)
			continue
		}
		e.Out.AddObl(&Obligation{Name: name + "/pre:" + c.Label, Func: name, Kind: "refine", Label: c.Label, Text: c.Text, Src: c.Src, Formula: t, Inputs: e.obsOnly(), Obs: e.lastObs})
		e.Out.Assert(t)
	}
	// frame inclusion (by name)
	allowed := map[string]bool{}
	for _, mc := range iface.Modifies {
		allowed[strings.TrimSpace(mc.Text)] = true
	}
	for _, mc := range impl.Modifies {
		t := strings.TrimSpace(mc.Text)
		root := t
		if i := strings.IndexAny(t, "[."); i > 0 {
			root = t[:i]
		}
		if !allowed[t] && !allowed[root] {
			e.unsupported("%s modifies %s, which the interface contract %s does not allow", implKey, t, ifaceKey)
		}
	}
	post := pre.clone()
	envM.st, envM.old = pre, pre
	for _, mc := range impl.Modifies {
		e.havocLoc(mc, envM, pre, post)
	}
	if !impl.Flags["noalloc"] {
		nt := e.havoc(post, "$top", SInt)
		e.Out.Assert("(>= " + nt + " " + e.top(pre) + ")")
	}
	var resT types.Type = sig.Results()
	if sig.Results().Len() == 1 {
		resT = sig.Results().At(0).Type()
	}
	var res Val
	if t, ok := resT.(*types.Tuple); !ok || t.Len() > 0 {
		res = e.freshTyped("rf$result", resT, post)
	}
	envM2 := &Env{e: e, vars: implVars, st: post, old: pre, result: &res, home: implPkg}
	for _, c := range impl.Ensures {
		e.Out.Assert(e.evalBool(c, envM2))
	}
	envI2 := &Env{e: e, vars: ifaceVars, st: post, old: pre, result: &res, home: ifacePkg}
	n := 0
	for _, c := range iface.Ensures {
		if c.Aux {
			continue
		}
		n++
		t := e.evalBool(c, envI2)
		e.Out.AddObl(&Obligation{Name: name + "/post:" + c.Label, Func: name, Kind: "refine", Label: c.Label, Text: c.Text, Src: c.Src, Formula: t, Inputs: e.obsOnly(), Obs: e.lastObs})
	}
	e.Out.AddObl(&Obligation{Name: name + "/cover:hypotheses", Func: name, Kind: "cover", Label: "hypotheses", Formula: "false", Expect: "sat", Text: "the implementation's contract is satisfiable under the interface's preconditions"})
	return nil
}
