package vc

import (
	"fmt"
	"go/types"
	"sort"
	"strings"
)

// Val is a symbolic value.
type Val struct {
	T    string     // SMT term
	S    Sort       // SMT sort
	Ty   types.Type // Go type when known
	Addr *Addr      // non-nil: an address (pointer to a cell/field/element), T unused
	Tup  []Val      // tuple
	Clo  *Closure   // statically known function value
	SRef string     // struct value that lives in memory: the (pseudo-)reference of its fields
}

// Addr is a pointer to something that is not a whole allocated struct.
type Addr struct {
	Kind string // field | cell | elem | arr | global
	Heap string // heap array name
	HS   Sort   // sort of the heap array
	Ref  string // field/cell: ref; elem: base
	Idx  string // elem: absolute index; arr: index into array value
	In   *Addr  // arr: address of the enclosing array value
	Ty   types.Type // type of the pointee
}

type Closure struct {
	Fn       interface{} // *ssa.Function
	Bindings []Val
}

// State maps heap-array / ghost / global names to their current SMT symbol.
type State struct {
	H map[string]string
}

func (s *State) clone() *State {
	n := &State{H: make(map[string]string, len(s.H))}
	for k, v := range s.H {
		n.H[k] = v
	}
	return n
}

// Obligation is one proof obligation.
type Obligation struct {
	Name    string
	Func    string
	Kind    string // ensures, pre, inv-entry, inv-pres, frame, lemma, safe, cover, refine
	Label   string
	Text    string
	Src     string
	Formula string // must be valid in context: the script asserts its negation
	CtxLen  int
	SkipFrom, SkipTo int // assertions on lines [SkipFrom,SkipTo) are not part of this obligation's context (code executed after the program point the obligation is about)
	Expect  string // "unsat" (valid) or "sat" (cover)
	Inputs  []string // terms to get-value on failure
	Obs     []ObsTerm
	// results
	Status  string // discharged | failed | unknown
	Solver  string
	TimeS   float64
	Model   string
	Relaxed bool // model comes from the context without quantified facts (candidate only)
	Cross   string // thorough tier: verdicts of the other solvers
	Detail  string
}

// Script accumulates the logical context of one function.
type Script struct {
	Global   map[int]bool // assertions about nothing but global/entry symbols (kept in every context)
	globalMode int
	Tags     map[int]string // line index -> label of the loop invariant the line assumes (relevance filtering, see Focus)
	Focus    map[string][]string // obligation label -> invariant labels kept in its context (others dropped: weaker context, still sound)
	Lines    []string
	declared map[string]int
	sorts    map[string]Sort
	Obls     []*Obligation
	fresh    int
}

func NewScript() *Script {
	return &Script{declared: map[string]int{}, sorts: map[string]Sort{}}
}

func (s *Script) emit(line string) {
	if s.globalMode > 0 {
		if s.Global == nil {
			s.Global = map[int]bool{}
		}
		s.Global[len(s.Lines)] = true
	}
	s.Lines = append(s.Lines, line)
}

// BeginGlobal/EndGlobal bracket the emission of facts that do not depend on the program point (well-formedness of the
// entry heaps, initial values of globals, definitional axioms): they are never dropped by context skipping.
func (s *Script) BeginGlobal() { s.globalMode++ }
func (s *Script) EndGlobal()   { s.globalMode-- }

func (s *Script) Declare(name string, sort Sort) string {
	sym := Sym(name)
	if _, ok := s.declared[sym]; ok {
		return sym
	}
	s.declared[sym] = len(s.Lines)
	s.sorts[sym] = sort
	s.emit(fmt.Sprintf("(declare-const %s %s)", sym, sort))
	return sym
}

func (s *Script) DeclareFun(name string, args []Sort, res Sort) string {
	sym := Sym(name)
	if _, ok := s.declared[sym]; ok {
		return sym
	}
	s.declared[sym] = len(s.Lines)
	as := make([]string, len(args))
	for i, a := range args {
		as[i] = string(a)
	}
	s.emit(fmt.Sprintf("(declare-fun %s (%s) %s)", sym, strings.Join(as, " "), res))
	return sym
}

func (s *Script) Define(name string, sort Sort, term string) string {
	sym := Sym(name)
	if _, ok := s.declared[sym]; ok {
		// redefinition (second pass over a loop body): make unique
		s.fresh++
		sym = Sym(fmt.Sprintf("%s~%d", name, s.fresh))
	}
	s.declared[sym] = len(s.Lines)
	s.sorts[sym] = sort
	s.emit(fmt.Sprintf("(define-fun %s () %s %s)", sym, sort, term))
	return sym
}

func (s *Script) Fresh(base string, sort Sort) string {
	s.fresh++
	return s.Declare(fmt.Sprintf("%s!%d", base, s.fresh), sort)
}

func (s *Script) FreshName(base string) string {
	s.fresh++
	return fmt.Sprintf("%s!%d", base, s.fresh)
}

func (s *Script) Assert(f string) {
	if f == "true" {
		return
	}
	s.emit("(assert " + f + ")")
}

type mark struct {
	lines, obls int
}

func (s *Script) Mark() mark { return mark{len(s.Lines), len(s.Obls)} }

// AssertTagged asserts an assumption that stems from the loop invariant with the given label.
func (s *Script) AssertTagged(f, label string) {
	if f == "true" {
		return
	}
	if s.Tags == nil {
		s.Tags = map[int]string{}
	}
	s.Tags[len(s.Lines)] = label
	s.emit("(assert " + f + ")")
}

func (s *Script) Rollback(m mark) {
	for k := range s.Tags {
		if k >= m.lines {
			delete(s.Tags, k)
		}
	}
	for k := range s.Global {
		if k >= m.lines {
			delete(s.Global, k)
		}
	}
	s.Lines = s.Lines[:m.lines]
	s.Obls = s.Obls[:m.obls]
	for k, v := range s.declared {
		if v >= m.lines {
			delete(s.declared, k)
			delete(s.sorts, k)
		}
	}
}

// expandDefs replaces, in an SMT term, every symbol of the given set that was introduced by define-fun with its
// definition (recursively): a term over symbols defined inside a region becomes a term over the symbols the
// definitions bottom out in.
func (s *Script) expandDefs(term string, set map[string]bool, keep map[string]bool, depth int) string {
	if depth > 12 {
		return term
	}
	n := parseSx(term)
	if n == nil {
		return term
	}
	var walk func(n *sx) *sx
	walk = func(n *sx) *sx {
		if n.list == nil {
			if set[n.atom] && !keep[n.atom] {
				if ln, ok := s.declared[n.atom]; ok && ln < len(s.Lines) {
					d := parseSx(s.Lines[ln])
					if d != nil && len(d.list) == 5 && d.list[0].atom == "define-fun" && d.list[1].atom == n.atom {
						return parseSx(s.expandDefs(d.list[4].String(), set, keep, depth+1))
					}
				}
			}
			return n
		}
		m := &sx{}
		for _, c := range n.list {
			m.list = append(m.list, walk(c))
		}
		return m
	}
	return walk(n).String()
}

// definedSince reports the symbols declared at or after the mark.
func (s *Script) definedSince(m mark) map[string]bool {
	out := map[string]bool{}
	for k, v := range s.declared {
		if v >= m.lines {
			out[k] = true
		}
	}
	return out
}

func (s *Script) AddObl(o *Obligation) {
	o.CtxLen = len(s.Lines)
	if o.Expect == "" {
		o.Expect = "unsat"
	}
	s.Obls = append(s.Obls, o)
}

// symbolsIn extracts the symbols (identifiers) of an SMT term.
func symbolsIn(t string) []string {
	var out []string
	i := 0
	for i < len(t) {
		c := t[i]
		switch {
		case c == '|':
			j := strings.IndexByte(t[i+1:], '|')
			if j < 0 {
				return out
			}
			out = append(out, t[i:i+j+2])
			i += j + 2
		case c == '"':
			j := i + 1
			for j < len(t) {
				if t[j] == '"' {
					if j+1 < len(t) && t[j+1] == '"' {
						j += 2
						continue
					}
					break
				}
				j++
			}
			i = j + 1
		case c == '(' || c == ')' || c == ' ' || c == '\n' || c == '\t':
			i++
		default:
			j := i
			for j < len(t) && !strings.ContainsRune("() \n\t|\"", rune(t[j])) {
				j++
			}
			out = append(out, t[i:j])
			i = j
		}
	}
	return out
}

func uniqSorted(xs []string) []string {
	sort.Strings(xs)
	var out []string
	for i, x := range xs {
		if i == 0 || xs[i-1] != x {
			out = append(out, x)
		}
	}
	return out
}
