package vc

import (
	"fmt"
	"go/token"
	"go/types"
	"math/big"
	"strings"

	"golang.org/x/tools/go/ssa"
)

func (e *Exec) instr(fr *Frame, ins ssa.Instruction, st *State, g string) {
	switch x := ins.(type) {
	case *ssa.DebugRef:
	case *ssa.Phi:
		// handled at block entry
	case *ssa.Alloc:
		e.doAlloc(fr, x, st)
	case *ssa.FieldAddr:
		e.doFieldAddr(fr, x, st, g)
	case *ssa.Field:
		sv := e.val(fr, x.X)
		stT := x.X.Type()
		f := stT.Underlying().(*types.Struct).Field(x.Field)
		proj := e.Out.DeclareFun("SF$"+e.typeName(stT)+"."+f.Name(), []Sort{SInt}, e.sortOf(f.Type()))
		v := e.define(fr, x, App(proj, sv.T))
		e.Out.Assert(e.rangeFact(v.T, f.Type(), st))
	case *ssa.IndexAddr:
		e.doIndexAddr(fr, x, st, g)
	case *ssa.Index:
		xv := e.val(fr, x.X)
		iv := e.val(fr, x.Index)
		switch t := x.X.Type().Underlying().(type) {
		case *types.Array:
			e.safety(fr, x, g, "(and (>= "+iv.T+" 0) (< "+iv.T+" "+IntLit(t.Len())+"))", "index")
			v := e.define(fr, x, Sel(xv.T, iv.T))
			e.Out.Assert(e.rangeFact(v.T, t.Elem(), st))
		default:
			// string index
			e.safety(fr, x, g, "(and (>= "+iv.T+" 0) (< "+iv.T+" (str.len "+xv.T+")))", "index")
			v := e.define(fr, x, "(str.to_code (str.at "+xv.T+" "+iv.T+"))")
			_ = v
		}
	case *ssa.UnOp:
		e.doUnOp(fr, x, st, g)
	case *ssa.BinOp:
		e.doBinOp(fr, x, st, g)
	case *ssa.Convert:
		e.doConvert(fr, x, st)
	case *ssa.ChangeType:
		v := e.val(fr, x.X)
		v.Ty = x.Type()
		fr.vals[x] = v
	case *ssa.ChangeInterface:
		v := e.val(fr, x.X)
		v.Ty = x.Type()
		fr.vals[x] = v
	case *ssa.MakeInterface:
		inner := e.val(fr, x.X)
		sym := e.Out.Define(fr.prefix+x.Name(), SAny, e.box(inner, x.X.Type()))
		if e.boxInfo == nil {
			e.boxInfo = map[string]boxRec{}
		}
		e.boxInfo[sym] = boxRec{x.X.Type(), e.scalar(inner)}
		fr.vals[x] = Val{T: sym, S: SAny, Ty: x.Type()}
	case *ssa.TypeAssert:
		e.doTypeAssert(fr, x, st, g)
	case *ssa.Extract:
		t := e.val(fr, x.Tuple)
		if t.Tup == nil || x.Index >= len(t.Tup) {
			e.unsupported("extract from non-tuple %s", x.Tuple.Name())
		}
		fr.vals[x] = t.Tup[x.Index]
	case *ssa.Store:
		e.doStore(fr, x, st, g)
	case *ssa.MakeSlice:
		ln := e.val(fr, x.Len)
		cp := e.val(fr, x.Cap)
		e.safety(fr, x, g, "(and (>= "+ln.T+" 0) (<= "+ln.T+" "+cp.T+"))", "makeslice")
		elem := x.Type().Underlying().(*types.Slice).Elem()
		h, hs := e.elemHeap(elem)
		base := e.alloc(st)
		e.write1(st, h, hs, base, e.zeroOf(types.NewArray(elem, 0)))
		e.defSlice(fr, x, base, "0", ln.T, cp.T)
	case *ssa.MakeMap:
		m := x.Type().Underlying().(*types.Map)
		d, v, ds, vs := e.mapHeaps(m)
		ref := e.alloc(st)
		ks := e.sortOf(m.Key())
		e.set(st, d, ds, Sto(e.get(st, d, ds), ref, "((as const "+string(ArrSort(ks, SBool))+") false)"))
		e.set(st, v, vs, Sto(e.get(st, v, vs), ref, "((as const "+string(ArrSort(ks, e.sortOf(m.Elem())))+") "+e.zeroOf(m.Elem())+")"))
		e.recordWrite(d, ref)
		e.recordWrite(v, ref)
		e.define(fr, x, ref)
	case *ssa.MakeChan:
		e.define(fr, x, e.alloc(st))
	case *ssa.MakeClosure:
		var binds []Val
		for _, b := range x.Bindings {
			binds = append(binds, e.val(fr, b))
		}
		fr.vals[x] = Val{Clo: &Closure{Fn: x.Fn, Bindings: binds}, Ty: x.Type()}
	case *ssa.Slice:
		e.doSlice(fr, x, st, g)
	case *ssa.Lookup:
		e.doLookup(fr, x, st, g)
	case *ssa.MapUpdate:
		m := e.val(fr, x.Map)
		k := e.val(fr, x.Key)
		v := e.val(fr, x.Value)
		mt := x.Map.Type().Underlying().(*types.Map)
		d, vh, ds, vs := e.mapHeaps(mt)
		e.safety(fr, x, g, Not(Eq(m.T, "0")), "nil-map-write")
		dh := e.get(st, d, ds)
		e.set(st, d, ds, Sto(dh, m.T, Sto(Sel(dh, m.T), k.T, "true")))
		vv := e.get(st, vh, vs)
		e.set(st, vh, vs, Sto(vv, m.T, Sto(Sel(vv, m.T), k.T, e.scalar(v))))
		e.recordWrite(d, m.T)
		e.recordWrite(vh, m.T)
	case *ssa.Range:
		e.doRange(fr, x, st)
	case *ssa.Next:
		e.doNext(fr, x, st, g)
	case *ssa.Call:
		res := e.doCall(fr, x, x.Common(), st, g, false)
		fr.vals[x] = res
	case *ssa.Defer:
		if inLoop(x.Block()) {
			e.deferInLoop(fr, x, st, g)
		} else {
			fr.defers = append(fr.defers, deferred{guard: g, call: x})
		}
	case *ssa.RunDefers:
		// defers registered inside loops (commutative-defer rule) are statically known; blocks are visited in
		// reverse post-order, so the loop body may be visited after this block: do not rely on visit order
		for _, b := range fr.fn.Blocks {
			for _, bi := range b.Instrs {
				if df, ok := bi.(*ssa.Defer); ok && inLoop(b) && len(df.Common().Args) == 1 {
					e.runDeferSet(fr, deferred{guard: "true", call: df, set: deferSetName(df), ksort: e.sortOf(df.Common().Args[0].Type())}, st, g)
				}
			}
		}
		for i := len(fr.defers) - 1; i >= 0; i-- {
			d := fr.defers[i]
			if d.set != "" {
				continue
			}
			e.doCall(fr, d.call, d.call.Common(), st, And(g, d.guard), true)
		}
	case *ssa.Go:
		e.doGo(fr, x, st, g)
	case *ssa.Return:
		var v Val
		switch len(x.Results) {
		case 0:
		case 1:
			v = e.val(fr, x.Results[0])
			if v.Addr != nil {
				v = Val{T: e.reify(v), S: SInt, Ty: v.Ty}
			}
		default:
			for _, r := range x.Results {
				rv := e.val(fr, r)
				if rv.Addr != nil {
					rv = Val{T: e.reify(rv), S: SInt, Ty: rv.Ty}
				}
				v.Tup = append(v.Tup, rv)
			}
		}
		fr.rets = append(fr.rets, retInfo{g, v, st.clone(), shortPos(e.P.Fset.Position(x.Pos())), len(e.Out.Lines)})
	case *ssa.If, *ssa.Jump:
	case *ssa.Panic:
		if e.Opt.Sweep {
			pos := e.P.Fset.Position(x.Pos())
			e.Out.AddObl(&Obligation{Name: fmt.Sprintf("%s/safe:panic@%s", FuncKey(fr.fn), shortPos(pos)), Func: FuncKey(fr.fn), Kind: "safe", Label: "panic", Text: "explicit panic unreachable", Src: pos.String(), Formula: Not(g), Inputs: e.inputTerms(fr)})
		}
	case *ssa.Send:
		e.doSend(fr, x, st, g)
	case *ssa.Select:
		e.doSelect(fr, x, st, g)
	default:
		e.unsupported("instruction %T (%s) in %s", ins, ins, fr.fn)
	}
}

// scalar returns the SMT term of a value, reifying addresses.
func (e *Exec) scalar(v Val) string {
	if v.Addr != nil {
		return e.reify(v)
	}
	if v.Clo != nil {
		if fn, ok := v.Clo.Fn.(*ssa.Function); ok {
			return e.funcSym(FuncKey(fn))
		}
		return e.Out.Declare(fmt.Sprintf("fn$%p", v.Clo.Fn), SInt)
	}
	if v.Tup != nil {
		e.unsupported("tuple used as scalar")
	}
	return v.T
}

func (e *Exec) doAlloc(fr *Frame, x *ssa.Alloc, st *State) {
	pt := x.Type().(*types.Pointer).Elem()
	ref := e.alloc(st)
	switch u := pt.Underlying().(type) {
	case *types.Struct:
		_ = u
		e.zeroStructAt(pt, ref, st)
		fr.vals[x] = Val{T: ref, S: SInt, Ty: x.Type()}
	case *types.Array:
		h, hs := e.elemHeap(u.Elem())
		e.write1(st, h, hs, ref, e.zeroOf(pt))
		fr.vals[x] = Val{Addr: &Addr{Kind: "row", Heap: h, HS: hs, Ref: ref, Ty: pt}, Ty: x.Type()}
	default:
		h, hs := e.cellHeap(pt)
		e.write1(st, h, hs, ref, e.zeroOf(pt))
		fr.vals[x] = Val{Addr: &Addr{Kind: "cell", Heap: h, HS: hs, Ref: ref, Ty: pt}, Ty: x.Type()}
	}
}

// asRef converts a pointer-to-struct value to its reference term.
func (e *Exec) asRef(v Val) string {
	if v.Addr != nil {
		return e.reify(v)
	}
	return v.T
}

func (e *Exec) doFieldAddr(fr *Frame, x *ssa.FieldAddr, st *State, g string) {
	base := e.val(fr, x.X)
	stT := x.X.Type().Underlying().(*types.Pointer).Elem()
	ref := e.asRef(base)
	e.safety(fr, x, g, Not(Eq(ref, "0")), "nil-deref")
	h, hs, ft := e.fieldHeap(stT, x.Field)
	if arr, ok := ft.Underlying().(*types.Array); ok {
		eh, ehs := e.elemHeap(arr.Elem())
		fr.vals[x] = Val{Addr: &Addr{Kind: "row", Heap: eh, HS: ehs, Ref: e.subRef(h, ref), Ty: ft}, Ty: x.Type()}
		return
	}
	fr.vals[x] = Val{Addr: &Addr{Kind: "field", Heap: h, HS: hs, Ref: ref, Ty: ft}, Ty: x.Type()}
}

func (e *Exec) doIndexAddr(fr *Frame, x *ssa.IndexAddr, st *State, g string) {
	xv := e.val(fr, x.X)
	iv := e.val(fr, x.Index)
	switch t := x.X.Type().Underlying().(type) {
	case *types.Slice:
		h, hs := e.elemHeap(t.Elem())
		e.safety(fr, x, g, "(and (>= "+iv.T+" 0) (< "+iv.T+" "+e.slen(xv.T)+"))", "index")
		fr.vals[x] = Val{Addr: &Addr{Kind: "elem", Heap: h, HS: hs, Ref: ""+e.sbase(xv.T)+"", Idx: elemIdx(e.soff(xv.T), iv.T), Ty: t.Elem()}, Ty: x.Type()}
	case *types.Pointer:
		arr := t.Elem().Underlying().(*types.Array)
		e.safety(fr, x, g, "(and (>= "+iv.T+" 0) (< "+iv.T+" "+IntLit(arr.Len())+"))", "index")
		if xv.Addr != nil && xv.Addr.Kind == "row" {
			fr.vals[x] = Val{Addr: &Addr{Kind: "elem", Heap: xv.Addr.Heap, HS: xv.Addr.HS, Ref: xv.Addr.Ref, Idx: iv.T, Ty: arr.Elem()}, Ty: x.Type()}
			return
		}
		if xv.Addr != nil {
			fr.vals[x] = Val{Addr: &Addr{Kind: "arr", In: xv.Addr, Idx: iv.T, Ty: arr.Elem()}, Ty: x.Type()}
			return
		}
		// pointer to array held as a reference: treat as row in the element heap
		h, hs := e.elemHeap(arr.Elem())
		fr.vals[x] = Val{Addr: &Addr{Kind: "elem", Heap: h, HS: hs, Ref: xv.T, Idx: iv.T, Ty: arr.Elem()}, Ty: x.Type()}
	default:
		e.unsupported("IndexAddr on %s", x.X.Type())
	}
}

// ptrAddr views a pointer value as an address.
func (e *Exec) ptrAddr(v Val, ptrT types.Type) *Addr {
	if v.Addr != nil {
		return v.Addr
	}
	pt := ptrT.Underlying().(*types.Pointer).Elem()
	if arr, ok := pt.Underlying().(*types.Array); ok {
		h, hs := e.elemHeap(arr.Elem())
		return &Addr{Kind: "row", Heap: h, HS: hs, Ref: v.T, Ty: pt}
	}
	h, hs := e.cellHeap(pt)
	return &Addr{Kind: "cell", Heap: h, HS: hs, Ref: v.T, Ty: pt}
}

func (e *Exec) doUnOp(fr *Frame, x *ssa.UnOp, st *State, g string) {
	xv := e.val(fr, x.X)
	switch x.Op {
	case token.MUL: // load
		pt := x.X.Type().Underlying().(*types.Pointer).Elem()
		if _, isStruct := pt.Underlying().(*types.Struct); isStruct && xv.Addr == nil {
			// load of a whole struct through a reference: token with field projections
			ref := xv.T
			e.safety(fr, x, g, Not(Eq(ref, "0")), "nil-deref")
			tok := e.Out.Define(fr.prefix+x.Name(), SInt, e.loadStruct(pt, ref, st))
			fr.vals[x] = Val{T: tok, S: SInt, Ty: x.Type()}
			return
		}
		a := e.ptrAddr(xv, x.X.Type())
		if xv.Addr == nil {
			e.safety(fr, x, g, Not(Eq(xv.T, "0")), "nil-deref")
		}
		if g, ok := x.X.(*ssa.Global); ok {
			e.globalFacts(g, st)
		}
		v := e.define(fr, x, e.loadAddr(a, st))
		e.Out.Assert(e.rangeFact(v.T, x.Type(), st))
	case token.NOT:
		e.define(fr, x, Not(xv.T))
	case token.SUB:
		ii, _ := intInfoOf(x.Type())
		e.define(fr, x, ii.wrapOnce("(- "+xv.T+")"))
	case token.XOR:
		ii, _ := intInfoOf(x.Type())
		if ii.signed {
			e.define(fr, x, "(- (- "+xv.T+") 1)")
		} else {
			e.define(fr, x, "(- "+bigLit(ii.max())+" "+xv.T+")")
		}
	case token.ARROW:
		// channel receive: unconstrained value (abstraction, see DESIGN 2.3)
		e.P.Trusted["abstraction: channel receive yields an unconstrained value"] = true
		if x.CommaOk {
			tup := x.Type().(*types.Tuple)
			fr.vals[x] = Val{Tup: []Val{e.freshTyped(fr.prefix+x.Name(), tup.At(0).Type(), st), e.freshTyped(fr.prefix+x.Name()+"ok", tup.At(1).Type(), st)}, Ty: x.Type()}
		} else {
			fr.vals[x] = e.freshTyped(fr.prefix+x.Name(), x.Type(), st)
		}
	default:
		e.unsupported("unary op %s", x.Op)
	}
}

func constInt(v ssa.Value) (*big.Int, bool) {
	c, ok := v.(*ssa.Const)
	if !ok || c.Value == nil {
		return nil, false
	}
	bi, ok := new(big.Int).SetString(c.Value.ExactString(), 10)
	return bi, ok
}

func (e *Exec) doBinOp(fr *Frame, x *ssa.BinOp, st *State, g string) {
	a, b := e.val(fr, x.X), e.val(fr, x.Y)
	xt := x.X.Type()
	switch x.Op {
	case token.EQL, token.NEQ:
		var t string
		switch u := xt.Underlying().(type) {
		case *types.Slice:
			// only comparison with nil is legal
			other := a
			if c, ok := x.X.(*ssa.Const); ok && c.Value == nil {
				other = b
			}
			t = Eq(""+e.sbase(other.T)+"", "0")
		case *types.Struct:
			t = e.Out.Fresh(fr.prefix+x.Name()+"$structeq", SBool)
		case *types.Signature:
			t = Eq(e.scalar(a), e.scalar(b))
		case *types.Interface:
			av, bv := a, b
			if _, ok := x.Y.Type().Underlying().(*types.Interface); !ok {
				bv = Val{T: e.box(b, x.Y.Type())}
			}
			t = Eq(av.T, bv.T)
		default:
			_ = u
			if _, isIface := x.Y.Type().Underlying().(*types.Interface); isIface {
				t = Eq(e.box(a, xt), b.T)
			} else {
				t = Eq(e.scalar(a), e.scalar(b))
			}
		}
		if x.Op == token.NEQ {
			t = Not(t)
		}
		e.define(fr, x, t)
		return
	}
	if bt, ok := xt.Underlying().(*types.Basic); ok && bt.Info()&types.IsString != 0 {
		switch x.Op {
		case token.ADD:
			e.define(fr, x, "(str.++ "+a.T+" "+b.T+")")
		case token.LSS:
			e.define(fr, x, "(str.< "+a.T+" "+b.T+")")
		case token.LEQ:
			e.define(fr, x, "(str.<= "+a.T+" "+b.T+")")
		case token.GTR:
			e.define(fr, x, "(str.< "+b.T+" "+a.T+")")
		case token.GEQ:
			e.define(fr, x, "(str.<= "+b.T+" "+a.T+")")
		default:
			e.unsupported("string op %s", x.Op)
		}
		return
	}
	if bt, ok := xt.Underlying().(*types.Basic); ok && bt.Info()&types.IsFloat != 0 {
		e.define(fr, x, e.Out.Fresh(fr.prefix+x.Name()+"$float", e.sortOf(x.Type())))
		return
	}
	if bt, ok := xt.Underlying().(*types.Basic); ok && bt.Info()&types.IsBoolean != 0 {
		switch x.Op {
		case token.LAND, token.AND:
			e.define(fr, x, And(a.T, b.T))
		case token.LOR, token.OR:
			e.define(fr, x, Or(a.T, b.T))
		default:
			e.unsupported("bool op %s", x.Op)
		}
		return
	}
	ii, ok := intInfoOf(x.Type())
	if !ok {
		ii, _ = intInfoOf(xt)
	}
	switch x.Op {
	case token.LSS:
		e.define(fr, x, "(< "+a.T+" "+b.T+")")
	case token.LEQ:
		e.define(fr, x, "(<= "+a.T+" "+b.T+")")
	case token.GTR:
		e.define(fr, x, "(> "+a.T+" "+b.T+")")
	case token.GEQ:
		e.define(fr, x, "(>= "+a.T+" "+b.T+")")
	case token.ADD:
		e.defineOpaque(fr, x, ii.wrapOnce("(+ "+a.T+" "+b.T+")"))
	case token.SUB:
		e.defineOpaque(fr, x, ii.wrapOnce("(- "+a.T+" "+b.T+")"))
	case token.MUL:
		r := e.defineOpaque(fr, x, ii.wrapMod("(* "+a.T+" "+b.T+")"))
		// redundant but helpful: no wrap-around when the mathematical product is in range
		prod := "(* " + a.T + " " + b.T + ")"
		e.Out.Assert(Imp(ii.inRange(prod), Eq(r.T, prod)))
	case token.QUO:
		e.safety(fr, x, g, Not(Eq(b.T, "0")), "div-by-zero")
		q := tdiv(a.T, b.T)
		if ii.signed {
			q = ii.wrapOnce(q)
		}
		e.define(fr, x, q)
	case token.REM:
		e.safety(fr, x, g, Not(Eq(b.T, "0")), "div-by-zero")
		e.define(fr, x, "(- "+a.T+" (* "+b.T+" "+tdiv(a.T, b.T)+"))")
	case token.SHL:
		if k, ok := constInt(x.Y); ok && k.IsInt64() && k.Int64() < 64 {
			p := new(big.Int).Lsh(big.NewInt(1), uint(k.Int64()))
			e.define(fr, x, ii.wrapMod("(* "+a.T+" "+bigLit(p)+")"))
		} else {
			e.uninterpOp(fr, x, "shl", a, b, ii, st)
		}
	case token.SHR:
		if k, ok := constInt(x.Y); ok && k.IsInt64() && k.Int64() < 64 {
			p := new(big.Int).Lsh(big.NewInt(1), uint(k.Int64()))
			e.define(fr, x, "(div "+a.T+" "+bigLit(p)+")")
		} else {
			e.uninterpOp(fr, x, "shr", a, b, ii, st)
		}
	case token.AND:
		// x & (2^k-1) for non-negative x
		if k, ok := constInt(x.Y); ok && !ii.signed {
			k1 := new(big.Int).Add(k, big.NewInt(1))
			if k1.BitLen() > 0 && new(big.Int).And(k1, k).Sign() == 0 {
				e.define(fr, x, "(mod "+a.T+" "+bigLit(k1)+")")
				return
			}
		}
		e.uninterpOp(fr, x, "and", a, b, ii, st)
	case token.OR:
		e.uninterpOp(fr, x, "or", a, b, ii, st)
	case token.XOR:
		e.uninterpOp(fr, x, "xor", a, b, ii, st)
	case token.AND_NOT:
		e.uninterpOp(fr, x, "andnot", a, b, ii, st)
	default:
		e.unsupported("binary op %s", x.Op)
	}
}

func tdiv(a, b string) string {
	return "(ite (>= " + a + " 0) (div " + a + " " + b + ") (- (div (- " + a + ") " + b + ")))"
}

func (e *Exec) uninterpOp(fr *Frame, x *ssa.BinOp, op string, a, b Val, ii intInfo, st *State) {
	f := e.Out.DeclareFun(fmt.Sprintf("bit$%s$%d%v", op, ii.bits, ii.signed), []Sort{SInt, SInt}, SInt)
	v := e.define(fr, x, App(f, a.T, b.T))
	e.Out.Assert(ii.inRange(v.T))
}

func (e *Exec) doConvert(fr *Frame, x *ssa.Convert, st *State) {
	v := e.val(fr, x.X)
	from, to := x.X.Type(), x.Type()
	fi, fok := intInfoOf(from)
	ti, tok := intInfoOf(to)
	fb, _ := from.Underlying().(*types.Basic)
	tb, _ := to.Underlying().(*types.Basic)
	isInt := func(b *types.Basic) bool { return b != nil && b.Info()&types.IsInteger != 0 }
	switch {
	case fok && tok && isInt(fb) && isInt(tb):
		if fi.min().Cmp(ti.min()) >= 0 && fi.max().Cmp(ti.max()) <= 0 {
			e.define(fr, x, v.T)
		} else if fi.bits == ti.bits {
			e.define(fr, x, ti.wrapOnce(v.T))
		} else {
			e.define(fr, x, ti.wrapMod(v.T))
		}
	case tb != nil && tb.Info()&types.IsString != 0:
		// string(bytes) / string(rune)
		if _, ok := from.Underlying().(*types.Slice); ok {
			f := e.Out.DeclareFun("bytes2str", []Sort{SBytes}, SStr)
			e.define(fr, x, App(f, e.snapshotBytes(v.T, st)))
		} else {
			e.define(fr, x, "(str.from_code "+v.T+")")
		}
	case fb != nil && fb.Info()&types.IsString != 0:
		// []byte(string)
		if sl, ok := to.Underlying().(*types.Slice); ok {
			h, hs := e.elemHeap(sl.Elem())
			base := e.alloc(st)
			row := e.Out.Fresh("str2bytes", ArrSort(SInt, SInt))
			e.write1(st, h, hs, base, row)
			e.defSlice(fr, x, base, "0", "(str.len "+v.T+")", "(str.len "+v.T+")")
		} else {
			e.unsupported("convert %s -> %s", from, to)
		}
	default:
		// float and other conversions: opaque
		r := e.freshTyped(fr.prefix+x.Name(), to, st)
		fr.vals[x] = r
	}
}

// box turns a value of static type t into an Any term.
func (e *Exec) box(v Val, t types.Type) string {
	if _, ok := t.Underlying().(*types.Interface); ok {
		return v.T
	}
	tag := IntLit(int64(e.P.typeID(t)))
	term := e.scalar(v)
	switch e.sortOf(t) {
	case SInt:
		return "(any_i " + tag + " " + term + ")"
	case SStr:
		return "(any_s " + tag + " " + term + ")"
	case SBool:
		return "(any_b " + tag + " " + term + ")"
	case SSlice:
		return "(any_sl " + tag + " " + term + ")"
	case ArrSort(SInt, SInt):
		return "(any_arr " + tag + " " + term + ")"
	}
	// other sorts: box through an injective uninterpreted pair
	s := e.sortOf(t)
	bx := e.Out.DeclareFun("box$"+string(s), []Sort{s}, SInt)
	ub := e.Out.DeclareFun("unbox$"+string(s), []Sort{SInt}, s)
	e.Out.Assert(Eq(App(ub, App(bx, term)), term))
	return "(any_i " + tag + " " + App(bx, term) + ")"
}

func (e *Exec) unbox(any string, t types.Type) string {
	switch e.sortOf(t) {
	case SInt:
		return "(a_i " + any + ")"
	case SStr:
		return "(a_s " + any + ")"
	case SBool:
		return "(a_b " + any + ")"
	case SSlice:
		return "(a_sl " + any + ")"
	case ArrSort(SInt, SInt):
		return "(a_arr " + any + ")"
	}
	s := e.sortOf(t)
	ub := e.Out.DeclareFun("unbox$"+string(s), []Sort{SInt}, s)
	return App(ub, "(a_i "+any+")")
}

func (e *Exec) hasType(any string, t types.Type) string {
	tag := IntLit(int64(e.P.typeID(t)))
	var is string
	switch e.sortOf(t) {
	case SStr:
		is = "((_ is any_s) " + any + ")"
	case SBool:
		is = "((_ is any_b) " + any + ")"
	case SSlice:
		is = "((_ is any_sl) " + any + ")"
	case ArrSort(SInt, SInt):
		is = "((_ is any_arr) " + any + ")"
	default:
		is = "((_ is any_i) " + any + ")"
	}
	return "(and " + is + " (= (typeof " + any + ") " + tag + "))"
}

func (e *Exec) doTypeAssert(fr *Frame, x *ssa.TypeAssert, st *State, g string) {
	v := e.val(fr, x.X)
	var ok, res string
	if _, isIface := x.AssertedType.Underlying().(*types.Interface); isIface {
		impl := e.Out.DeclareFun("implements$"+e.typeName(x.AssertedType), []Sort{SInt}, SBool)
		ok = "(and " + Not(Eq(v.T, "anynil")) + " " + App(impl, "(typeof "+v.T+")") + ")"
		// static knowledge: a value of interface type whose method set includes the target always implements it
		if types.Implements(x.X.Type(), x.AssertedType.Underlying().(*types.Interface)) {
			ok = Not(Eq(v.T, "anynil"))
			// ... and the dynamic type of a non-nil value of that static type does implement the target
			e.Out.Assert(Imp(Not(Eq(v.T, "anynil")), App(impl, "(typeof "+v.T+")")))
		}
		res = v.T
	} else {
		ok = e.hasType(v.T, x.AssertedType)
		res = e.unbox(v.T, x.AssertedType)
	}
	s := e.sortOf(x.AssertedType)
	if x.CommaOk {
		okSym := e.Out.Define(fr.prefix+x.Name()+"$ok", SBool, ok)
		valSym := e.Out.Define(fr.prefix+x.Name()+"$v", s, Ite(okSym, res, e.zeroOf(x.AssertedType)))
		e.Out.Assert(e.rangeFact(valSym, x.AssertedType, st))
		fr.vals[x] = Val{Tup: []Val{{T: valSym, S: s, Ty: x.AssertedType}, {T: okSym, S: SBool, Ty: types.Typ[types.Bool]}}, Ty: x.Type()}
		return
	}
	e.safety(fr, x, g, ok, "type-assert")
	valSym := e.Out.Define(fr.prefix+x.Name(), s, res)
	e.Out.Assert(Imp(g, e.rangeFact(valSym, x.AssertedType, st)))
	fr.vals[x] = Val{T: valSym, S: s, Ty: x.AssertedType}
}

func (e *Exec) doStore(fr *Frame, x *ssa.Store, st *State, g string) {
	av := e.val(fr, x.Addr)
	v := e.val(fr, x.Val)
	pt := x.Addr.Type().Underlying().(*types.Pointer).Elem()
	if _, isStruct := pt.Underlying().(*types.Struct); isStruct && av.Addr == nil {
		e.storeStruct(pt, av.T, v.T, st)
		return
	}
	a := e.ptrAddr(av, x.Addr.Type())
	if av.Addr == nil {
		e.safety(fr, x, g, Not(Eq(av.T, "0")), "nil-deref")
	}
	if v.Clo != nil {
		// function values stored in the heap are opaque
		e.storeAddr(a, st, e.scalar(v))
		return
	}
	e.storeAddr(a, st, e.scalar(v))
}

func (e *Exec) doSlice(fr *Frame, x *ssa.Slice, st *State, g string) {
	xv := e.val(fr, x.X)
	opt := func(v ssa.Value, def string) string {
		if v == nil {
			return def
		}
		return e.val(fr, v).T
	}
	switch t := x.X.Type().Underlying().(type) {
	case *types.Slice:
		lo := opt(x.Low, "0")
		hi := opt(x.High, ""+e.slen(xv.T)+"")
		mx := opt(x.Max, ""+e.scap(xv.T)+"")
		e.safety(fr, x, g, "(and (<= 0 "+lo+") (<= "+lo+" "+hi+") (<= "+hi+" "+mx+") (<= "+mx+" "+e.scap(xv.T)+"))", "slice-bounds")
		e.defSlice(fr, x, e.sbase(xv.T), addInt(e.soff(xv.T), lo), subInt(hi, lo), subInt(mx, lo))
	case *types.Basic: // string
		lo := opt(x.Low, "0")
		hi := opt(x.High, "(str.len "+xv.T+")")
		e.safety(fr, x, g, "(and (<= 0 "+lo+") (<= "+lo+" "+hi+") (<= "+hi+" (str.len "+xv.T+")))", "slice-bounds")
		e.define(fr, x, "(str.substr "+xv.T+" "+lo+" (- "+hi+" "+lo+"))")
	case *types.Pointer:
		arr := t.Elem().Underlying().(*types.Array)
		n := IntLit(arr.Len())
		lo := opt(x.Low, "0")
		hi := opt(x.High, n)
		mx := opt(x.Max, n)
		e.safety(fr, x, g, "(and (<= 0 "+lo+") (<= "+lo+" "+hi+") (<= "+hi+" "+mx+") (<= "+mx+" "+n+"))", "slice-bounds")
		a := e.ptrAddr(xv, x.X.Type())
		if a.Kind != "row" {
			e.unsupported("slice of array that does not live in the element heap (%s)", a.Kind)
		}
		if gl, ok := x.X.(*ssa.Global); ok {
			e.globalFacts(gl, st)
		}
		e.defSlice(fr, x, a.Ref, lo, subInt(hi, lo), subInt(mx, lo))
	default:
		e.unsupported("slice of %s", x.X.Type())
	}
}

func (e *Exec) doLookup(fr *Frame, x *ssa.Lookup, st *State, g string) {
	xv := e.val(fr, x.X)
	k := e.val(fr, x.Index)
	mt, isMap := x.X.Type().Underlying().(*types.Map)
	if !isMap {
		// string index
		e.safety(fr, x, g, "(and (>= "+k.T+" 0) (< "+k.T+" (str.len "+xv.T+")))", "index")
		e.define(fr, x, "(str.to_code (str.at "+xv.T+" "+k.T+"))")
		return
	}
	d, vh, ds, vs := e.mapHeaps(mt)
	kt := e.scalar(k)
	if _, isIface := mt.Key().Underlying().(*types.Interface); isIface {
		kt = e.box(k, x.Index.Type())
	}
	has := "(and " + Not(Eq(xv.T, "0")) + " " + Sel(Sel(e.get(st, d, ds), xv.T), kt) + ")"
	val := Ite(has, Sel(Sel(e.get(st, vh, vs), xv.T), kt), e.zeroOf(mt.Elem()))
	s := e.sortOf(mt.Elem())
	if x.CommaOk {
		okSym := e.Out.Define(fr.prefix+x.Name()+"$ok", SBool, has)
		valSym := e.Out.Define(fr.prefix+x.Name()+"$v", s, val)
		e.Out.Assert(e.rangeFact(valSym, mt.Elem(), st))
		fr.vals[x] = Val{Tup: []Val{{T: valSym, S: s, Ty: mt.Elem()}, {T: okSym, S: SBool, Ty: types.Typ[types.Bool]}}, Ty: x.Type()}
		return
	}
	v := e.define(fr, x, val)
	e.Out.Assert(e.rangeFact(v.T, mt.Elem(), st))
}

func (e *Exec) doRange(fr *Frame, x *ssa.Range, st *State) {
	mt, ok := x.X.Type().Underlying().(*types.Map)
	if !ok {
		e.unsupported("range over %s", x.X.Type())
	}
	name := "$visited$" + fr.prefix + x.Name()
	ks := e.sortOf(mt.Key())
	e.set(st, name, ArrSort(ks, SBool), "((as const "+string(ArrSort(ks, SBool))+") false)")
	fr.iters[x] = name
	fr.vals[x] = Val{T: "0", S: SInt, Ty: x.Type()}
}

func (e *Exec) doNext(fr *Frame, x *ssa.Next, st *State, g string) {
	rng, ok := x.Iter.(*ssa.Range)
	if !ok || x.IsString {
		e.unsupported("next on %s", x.Iter)
	}
	mt := rng.X.Type().Underlying().(*types.Map)
	m := e.val(fr, rng.X)
	name := fr.iters[rng]
	ks, vsrt := e.sortOf(mt.Key()), e.sortOf(mt.Elem())
	visited := e.get(st, name, ArrSort(ks, SBool))
	d, vh, ds, vs := e.mapHeaps(mt)
	dom := Sel(e.get(st, d, ds), m.T)
	okSym := e.Out.Fresh(fr.prefix+x.Name()+"$ok", SBool)
	k := e.Out.Fresh(fr.prefix+x.Name()+"$k", ks)
	v := e.Out.Fresh(fr.prefix+x.Name()+"$v", vsrt)
	e.assume(g, Imp(okSym, And(Not(Eq(m.T, "0")), Sel(dom, k), Not(Sel(visited, k)), Eq(v, Sel(Sel(e.get(st, vh, vs), m.T), k)))))
	qk := e.Out.FreshName("qk")
	e.assume(g, Imp(Not(okSym), Or(Eq(m.T, "0"), "(forall (("+qk+" "+string(ks)+")) (! (=> "+Sel(dom, qk)+" "+Sel(visited, qk)+") :pattern ("+Sel(visited, qk)+") :pattern ("+Sel(dom, qk)+")))")))
	e.Out.Assert(e.rangeFact(k, mt.Key(), st))
	e.Out.Assert(e.rangeFact(v, mt.Elem(), st))
	e.set(st, name, ArrSort(ks, SBool), Ite(okSym, Sto(visited, k, "true"), visited))
	fr.vals[x] = Val{Tup: []Val{{T: okSym, S: SBool, Ty: types.Typ[types.Bool]}, {T: k, S: ks, Ty: mt.Key()}, {T: v, S: vsrt, Ty: mt.Elem()}}, Ty: x.Type()}
}

// globalFacts asserts the known initial contents of constant package-level byte arrays/slices.
func (e *Exec) globalFacts(g *ssa.Global, st *State) {
	e.Out.BeginGlobal()
	defer e.Out.EndGlobal()
	if e.P.globalIsNewError(g) {
		// package-level error values made by errors.New: non-nil and pairwise distinct
		name := "G$" + e.qual(g.Pkg.Pkg) + "." + g.Name()
		e.P.Trusted["immutable-global: "+g.Pkg.Pkg.Path()+"."+g.Name()+" keeps its errors.New value (non-nil, distinct from other error values)"] = true
		e.Out.Assert(Eq(e.get(st, name, SAny), "(any_i "+IntLit(int64(e.P.typeID(types.Typ[types.UnsafePointer])))+" "+e.globalBase(name)+")"))
		return
	}
	if sv, ok := e.P.globalStringConst(g); ok {
		name := "G$" + e.qual(g.Pkg.Pkg) + "." + g.Name()
		e.P.Trusted["immutable-global: "+g.Pkg.Pkg.Path()+"."+g.Name()+" keeps its string literal (no assignment or address-of found in the repository's sources on this run)"] = true
		e.Out.Assert(Eq(e.get(st, name, SStr), StrLit(sv)))
		return
	}
	vals, isSlice, ok := e.P.globalBytes(g)
	if !ok {
		return
	}
	name := "G$" + e.qual(g.Pkg.Pkg) + "." + g.Name()
	e.P.Trusted["immutable-global: "+g.Pkg.Pkg.Path()+"."+g.Name()+" keeps its initialiser (package-level byte literal never reassigned)"] = true
	h, hs := e.elemHeap(types.Typ[types.Uint8])
	base := e.globalBase(name)
	if isSlice {
		base = e.globalBase(name + "$backing")
		e.Out.Assert(Eq(e.get(st, name, SSlice), fmt.Sprintf("(mk_slice %s 0 %d %d)", base, len(vals), len(vals))))
	}
	row := Sel(e.get(st, h, hs), base)
	for i, b := range vals {
		e.Out.Assert(Eq(Sel(row, IntLit(int64(i))), IntLit(int64(b))))
	}
}

func (e *Exec) doGo(fr *Frame, x *ssa.Go, st *State, g string) {
	e.P.Trusted["abstraction: 'go' statement checks the callee's precondition and havocs its frame without assuming its postcondition"] = true
	e.doCallCommon(fr, x, x.Common(), st, g, true, true)
}

func (e *Exec) doSend(fr *Frame, x *ssa.Send, st *State, g string) {
	e.P.Trusted["abstraction: channel send is a no-op"] = true
}

func (e *Exec) doSelect(fr *Frame, x *ssa.Select, st *State, g string) {
	e.P.Trusted["abstraction: select yields an unconstrained case index and received values"] = true
	tup := x.Type().(*types.Tuple)
	var vs []Val
	for i := 0; i < tup.Len(); i++ {
		vs = append(vs, e.freshTyped(fmt.Sprintf("%s%s.%d", fr.prefix, x.Name(), i), tup.At(i).Type(), st))
	}
	// index is within the number of states (or -1 when non-blocking)
	lo := "0"
	if !x.Blocking {
		lo = "(- 1)"
	}
	e.Out.Assert("(and (>= " + vs[0].T + " " + lo + ") (< " + vs[0].T + " " + IntLit(int64(len(x.States))) + "))")
	fr.vals[x] = Val{Tup: vs, Ty: x.Type()}
}

// snapshotBytes returns a Bytes term holding the current contents of a byte slice (a term, usable under binders).
func (e *Exec) snapshotBytes(sl string, st *State) string {
	h, hs := e.elemHeap(types.Typ[types.Uint8])
	heap := e.get(st, h, hs)
	return "(snapb " + Sel(heap, ""+e.sbase(sl)+"") + " "+e.soff(sl)+" "+e.slen(sl)+")"
}

func trimPkg(s string) string {
	if i := strings.LastIndex(s, "/"); i >= 0 {
		return s[i+1:]
	}
	return s
}

func inLoop(b *ssa.BasicBlock) bool {
	for _, h := range b.Parent().Blocks {
		if isLoopHeader(h) && naturalLoop(h)[b] {
			return true
		}
	}
	return false
}

func (e *Exec) deferContract(x *ssa.Defer) *Contract {
	c := x.Common()
	if c.IsInvoke() {
		return e.P.Spec.Contracts[c.Method.FullName()]
	}
	if fn, ok := c.Value.(*ssa.Function); ok {
		return e.P.Spec.Contracts[FuncKey(fn)]
	}
	return nil
}

func deferSetName(x *ssa.Defer) string {
	return fmt.Sprintf("$defer$%s$b%d", x.Parent().Name(), x.Block().Index)
}

// deferInLoop: commutative-defer rule — the (single) key argument is collected in a ghost set.
func (e *Exec) deferInLoop(fr *Frame, x *ssa.Defer, st *State, g string) {
	ctr := e.deferContract(x)
	if ctr == nil || !ctr.Flags["deferset"] || len(x.Common().Args) != 1 {
		e.unsupported("defer inside a loop needs a callee contract with 'flag deferset' and one key argument (%s)", x)
	}
	e.P.Trusted["commutative-defer rule: deferred "+ctr.Key+" calls inside a loop are applied as one set update at function exit"] = true
	key := e.val(fr, x.Common().Args[0])
	ks := e.sortOf(x.Common().Args[0].Type())
	name := deferSetName(x)
	srt := ArrSort(ks, SBool)
	cur := e.get(st, name, srt)
	e.set(st, name, srt, Ite(g, Sto(cur, key.T, "true"), cur))
	e.recordWrite(name, "")
	for _, d := range fr.defers {
		if d.set == name {
			return
		}
	}
	fr.defers = append(fr.defers, deferred{guard: "true", call: x, set: name, ksort: ks})
}

func (e *Exec) runDeferSet(fr *Frame, d deferred, st *State, g string) {
	ctr := e.deferContract(d.call)
	srt := ArrSort(d.ksort, SBool)
	setTerm := e.get(st, d.set, srt)
	names := ctr.Params
	c := d.call.Common()
	var recv Val
	if c.IsInvoke() {
		if v, ok := fr.vals[c.Value]; ok {
			recv = v
		} else {
			// the receiver is loaded inside the loop body, which may be visited later: it does not matter for the ghost effect
			recv = e.freshTyped(fr.prefix+"deferrecv", c.Value.Type(), st)
		}
		if len(names) == 0 {
			names = append([]string{"self"}, sigParamNames(c.Signature())...)
		}
	}
	keyName := names[len(names)-1]
	pre := st.clone()
	// requires for every member of the set
	qk := Sym(e.Out.FreshName("dk"))
	env := &Env{e: e, vars: map[string]Val{keyName: {T: qk, S: d.ksort, Ty: c.Args[0].Type()}, "keys": {T: setTerm, S: srt}}, st: pre, old: pre, fr: fr, bound: true}
	if c.IsInvoke() {
		env.vars[names[0]] = recv
	}
	for _, rc := range ctr.Requires {
		t := e.evalBool(rc, env)
		member := Sel(setTerm, qk)
		if arr, ok := c.Args[0].Type().Underlying().(*types.Array); ok && d.ksort == ArrSort(SInt, SInt) {
			// the set holds Go array values (normalised)
			member = And("(arrnorm "+qk+" "+IntLit(arr.Len())+")", member)
		}
		f := "(forall ((" + qk + " " + string(d.ksort) + ")) (=> " + member + " " + t + "))"
		e.Out.AddObl(&Obligation{Name: fmt.Sprintf("%s/deferred:%s/pre:%s", FuncKey(fr.fn), trimPkg(ctr.Key), rc.Label), Func: FuncKey(fr.fn), Kind: "pre", Label: rc.Label, Text: "for every deferred key: " + rc.Text, Src: rc.Src, Formula: Imp(g, f)})
		e.assume(g, f)
	}
	post := st.clone()
	for _, m := range ctr.Modifies {
		e.havocLoc(m, env, pre, post)
	}
	env2 := &Env{e: e, vars: env.vars, st: post, old: pre, fr: fr}
	if len(ctr.SetEnsures) == 0 {
		e.unsupported("contract %s has 'flag deferset' but no setensures clause", ctr.Key)
	}
	for _, sc := range ctr.SetEnsures {
		e.assume(g, e.evalBool(sc, env2))
	}
	merged := e.mergeStates([]string{g, Not(g)}, []*State{post, pre})
	if g == "true" {
		merged = post
	}
	for k := range st.H {
		delete(st.H, k)
	}
	for k, v := range merged.H {
		st.H[k] = v
	}
}

// funcSym is the constant standing for a function value (distinct positive constants per function are not needed:
// contracts only compare a function value with itself).
func (e *Exec) funcSym(key string) string {
	return e.Out.Declare("fn$"+key, SInt)
}
