package vc

import "strings"

// sx is a parsed S-expression.
type sx struct {
	atom string
	list []*sx
}

func parseSx(s string) *sx {
	pos := 0
	var parse func() *sx
	skip := func() {
		for pos < len(s) && (s[pos] == ' ' || s[pos] == '\n' || s[pos] == '\t') {
			pos++
		}
	}
	parse = func() *sx {
		skip()
		if pos >= len(s) {
			return nil
		}
		if s[pos] == '(' {
			pos++
			n := &sx{}
			for {
				skip()
				if pos >= len(s) {
					return n
				}
				if s[pos] == ')' {
					pos++
					return n
				}
				c := parse()
				if c == nil {
					return n
				}
				n.list = append(n.list, c)
			}
		}
		start := pos
		switch s[pos] {
		case '|':
			pos++
			for pos < len(s) && s[pos] != '|' {
				pos++
			}
			pos++
		case '"':
			pos++
			for pos < len(s) {
				if s[pos] == '"' {
					if pos+1 < len(s) && s[pos+1] == '"' {
						pos += 2
						continue
					}
					break
				}
				pos++
			}
			pos++
		default:
			for pos < len(s) && !strings.ContainsRune("() \n\t", rune(s[pos])) {
				pos++
			}
		}
		return &sx{atom: s[start:pos]}
	}
	return parse()
}

func (n *sx) String() string {
	if n.list == nil && n.atom != "" {
		return n.atom
	}
	parts := make([]string, len(n.list))
	for i, c := range n.list {
		parts[i] = c.String()
	}
	return "(" + strings.Join(parts, " ") + ")"
}

func (n *sx) mentions(vars map[string]bool, found map[string]bool) {
	if n.list == nil {
		if vars[n.atom] {
			found[n.atom] = true
		}
		return
	}
	for _, c := range n.list {
		c.mentions(vars, found)
	}
}

var nonTriggerHeads = map[string]bool{"+": true, "-": true, "*": true, "div": true, "mod": true, "<": true, "<=": true, ">": true, ">=": true, "=": true,
	"arrnorm": true, "bnormdef": true, "and": true, "or": true, "not": true, "=>": true, "ite": true, "forall": true, "exists": true, "let": true, "!": true, "distinct": true, "store": true}

// triggerCandidates returns applications usable as E-matching patterns: uninterpreted/select applications that mention
// every bound variable and contain no interpreted boolean structure.
func triggerCandidates(body string, bound []string) []string {
	vars := map[string]bool{}
	for _, b := range bound {
		vars[b] = true
	}
	root := parseSx(body)
	if root == nil {
		return nil
	}
	seen := map[string]bool{}
	var out []string
	var okTerm func(n *sx) bool
	okTerm = func(n *sx) bool {
		if n.list == nil {
			return true
		}
		if len(n.list) == 0 {
			return false
		}
		h := n.list[0]
		if h.list != nil {
			// ((_ is C) x) etc.
			return false
		}
		switch h.atom {
		case "and", "or", "not", "=>", "ite", "forall", "exists", "let", "!", "=", "<", "<=", ">", ">=", "distinct", "store":
			return false
		}
		for _, c := range n.list[1:] {
			if !okTerm(c) {
				return false
			}
		}
		return true
	}
	var walk func(n *sx, underBinder bool)
	walk = func(n *sx, underBinder bool) {
		if n == nil || n.list == nil || len(n.list) == 0 {
			return
		}
		h := n.list[0]
		if h.list == nil && (h.atom == "forall" || h.atom == "exists") {
			return // do not pick triggers from nested quantifiers
		}
		if h.list == nil && !nonTriggerHeads[h.atom] && okTerm(n) {
			found := map[string]bool{}
			n.mentions(vars, found)
			if len(found) == len(vars) && !strings.Contains(n.String(), "lt$") {
				s := n.String()
				if !seen[s] {
					seen[s] = true
					out = append(out, s)
				}
				// still look inside for smaller candidates
			}
		}
		for _, c := range n.list {
			walk(c, underBinder)
		}
	}
	walk(root, false)
	// prefer smaller patterns; keep at most 5, dropping those that contain another candidate
	var keep []string
	for _, c := range out {
		contains := false
		for _, d := range out {
			if d != c && len(d) < len(c) && strings.Contains(c, d) {
				contains = true
			}
		}
		if !contains {
			keep = append(keep, c)
		}
	}
	if len(keep) > 5 {
		keep = keep[:5]
	}
	return keep
}

// stripPatterns removes (! body :pattern ...) annotations.
func stripPatterns(n *sx) *sx {
	if n.list == nil {
		return n
	}
	if len(n.list) >= 2 && n.list[0].list == nil && n.list[0].atom == "!" {
		return stripPatterns(n.list[1])
	}
	m := &sx{}
	for _, c := range n.list {
		m.list = append(m.list, stripPatterns(c))
	}
	return m
}

// dedupGoal simplifies a proof goal: quantified specification clauses are emitted twice (once plain, once with
// generated triggers — the same formula), which helps when the clause is a hypothesis but doubles the work when it
// is (a positive part of) the goal. In positive positions "(and Q Q')" with Q' == Q up to patterns becomes Q.
func dedupGoal(formula string) string {
	n := parseSx(formula)
	if n == nil {
		return formula
	}
	var dd func(n *sx, pol int) *sx
	dd = func(n *sx, pol int) *sx {
		if n.list == nil || len(n.list) == 0 || n.list[0].list != nil {
			return n
		}
		h := n.list[0].atom
		switch h {
		case "and":
			if pol > 0 && len(n.list) == 3 && n.list[1].String() != n.list[2].String() && stripPatterns(n.list[1]).String() == stripPatterns(n.list[2]).String() {
				return dd(n.list[1], pol)
			}
			fallthrough
		case "or":
			m := &sx{list: []*sx{n.list[0]}}
			for _, c := range n.list[1:] {
				m.list = append(m.list, dd(c, pol))
			}
			return m
		case "not":
			if len(n.list) == 2 {
				return &sx{list: []*sx{n.list[0], dd(n.list[1], -pol)}}
			}
		case "=>":
			m := &sx{list: []*sx{n.list[0]}}
			for i, c := range n.list[1:] {
				if i == len(n.list)-2 {
					m.list = append(m.list, dd(c, pol))
				} else {
					m.list = append(m.list, dd(c, -pol))
				}
			}
			return m
		case "forall", "exists":
			if len(n.list) == 3 {
				return &sx{list: []*sx{n.list[0], n.list[1], dd(n.list[2], pol)}}
			}
		case "!":
			if len(n.list) >= 2 {
				m := &sx{list: []*sx{n.list[0], dd(n.list[1], pol)}}
				m.list = append(m.list, n.list[2:]...)
				return m
			}
		}
		return n
	}
	return dd(n, 1).String()
}
