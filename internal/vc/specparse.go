package vc

import (
	"fmt"
	"strings"
	"unicode"
)

// ---- spec expression AST ----

type Expr interface{ exprNode() }

type (
	EIdent  struct{ Name string }
	EInt    struct{ Val string }
	EStr    struct{ Val string }
	EBool   struct{ Val bool }
	ENil    struct{}
	EUnary  struct{ Op string; X Expr }
	EBinary struct{ Op string; X, Y Expr }
	ESel    struct{ X Expr; Name string }
	EIndex  struct{ X, I Expr }
	ESlice  struct{ X, Lo, Hi Expr }
	EUpd    struct{ X, K, V Expr } // m[k := v]
	ECall   struct{ Fun string; Args []Expr }
	EOld    struct{ X Expr }
	EQuant  struct {
		Forall bool
		Vars   []QVar
		Body   Expr
	}
	ELet struct {
		Name string
		Val  Expr
		Body Expr
	}
	EIf struct{ C, A, B Expr }
)

type QVar struct{ Name, Type string }

func (EIdent) exprNode()  {}
func (EInt) exprNode()    {}
func (EStr) exprNode()    {}
func (EBool) exprNode()   {}
func (ENil) exprNode()    {}
func (EUnary) exprNode()  {}
func (EBinary) exprNode() {}
func (ESel) exprNode()    {}
func (EIndex) exprNode()  {}
func (ESlice) exprNode()  {}
func (EUpd) exprNode()    {}
func (ECall) exprNode()   {}
func (EOld) exprNode()    {}
func (EQuant) exprNode()  {}
func (ELet) exprNode()    {}
func (EIf) exprNode()     {}

// ---- lexer ----

type tok struct {
	kind string // id, int, str, op, eof
	text string
}

func lexSpec(s string) ([]tok, error) {
	var out []tok
	i := 0
	for i < len(s) {
		c := s[i]
		switch {
		case c == ' ' || c == '\t' || c == '\n' || c == '\r':
			i++
		case unicode.IsLetter(rune(c)) || c == '_' || c == '$' || c == '#':
			j := i + 1
			for j < len(s) && (unicode.IsLetter(rune(s[j])) || unicode.IsDigit(rune(s[j])) || s[j] == '_' || s[j] == '$') {
				j++
			}
			out = append(out, tok{"id", s[i:j]})
			i = j
		case c == '`':
			// `name`: a Go identifier that happens to be a keyword of the specification language (exists, forall, old, ...)
			j := strings.IndexByte(s[i+1:], '`')
			if j < 0 {
				return nil, fmt.Errorf("unterminated `identifier` in %q", s)
			}
			out = append(out, tok{"qid", s[i+1 : i+1+j]})
			i += j + 2
		case unicode.IsDigit(rune(c)):
			j := i + 1
			for j < len(s) && (unicode.IsDigit(rune(s[j])) || s[j] == 'x' || (s[j] >= 'a' && s[j] <= 'f') || (s[j] >= 'A' && s[j] <= 'F') || s[j] == '_') {
				j++
			}
			out = append(out, tok{"int", strings.ReplaceAll(s[i:j], "_", "")})
			i = j
		case c == '"':
			j := i + 1
			var b strings.Builder
			for j < len(s) && s[j] != '"' {
				if s[j] == '\\' && j+1 < len(s) {
					j++
					switch s[j] {
					case 'n':
						b.WriteByte('\n')
					case 't':
						b.WriteByte('\t')
					default:
						b.WriteByte(s[j])
					}
				} else {
					b.WriteByte(s[j])
				}
				j++
			}
			if j >= len(s) {
				return nil, fmt.Errorf("unterminated string in %q", s)
			}
			out = append(out, tok{"str", b.String()})
			i = j + 1
		default:
			ops := []string{"<==>", "==>", "::", ":=", "==", "!=", "<=", ">=", "&&", "||", "..", "<", ">", "+", "-", "*", "/", "%", "!", "(", ")", "[", "]", ",", ".", ":", "?"}
			matched := false
			for _, op := range ops {
				if strings.HasPrefix(s[i:], op) {
					out = append(out, tok{"op", op})
					i += len(op)
					matched = true
					break
				}
			}
			if !matched {
				return nil, fmt.Errorf("bad character %q in spec %q", c, s)
			}
		}
	}
	out = append(out, tok{"eof", ""})
	return out, nil
}

type sparser struct {
	toks []tok
	pos  int
	src  string
}

func ParseExpr(s string) (Expr, error) {
	toks, err := lexSpec(s)
	if err != nil {
		return nil, err
	}
	p := &sparser{toks: toks, src: s}
	var e Expr
	func() {
		defer func() {
			if r := recover(); r != nil {
				if pe, ok := r.(parseErr); ok {
					err = fmt.Errorf("%s in %q", string(pe), s)
					return
				}
				panic(r)
			}
		}()
		e = p.expr()
		if p.peek().kind != "eof" {
			p.fail("trailing tokens at %q", p.peek().text)
		}
	}()
	return e, err
}

type parseErr string

func (p *sparser) fail(f string, a ...any) { panic(parseErr(fmt.Sprintf(f, a...))) }
func (p *sparser) peek() tok               { return p.toks[p.pos] }
func (p *sparser) next() tok               { t := p.toks[p.pos]; p.pos++; return t }
func (p *sparser) isOp(s string) bool      { t := p.peek(); return t.kind == "op" && t.text == s }
func (p *sparser) isID(s string) bool      { t := p.peek(); return t.kind == "id" && t.text == s }
func (p *sparser) expectOp(s string) {
	if !p.isOp(s) {
		p.fail("expected %q got %q", s, p.peek().text)
	}
	p.pos++
}

func (p *sparser) expr() Expr { return p.iff() }

func (p *sparser) iff() Expr {
	x := p.implies()
	for p.isOp("<==>") {
		p.next()
		y := p.implies()
		x = EBinary{"<==>", x, y}
	}
	return x
}

func (p *sparser) implies() Expr {
	x := p.or()
	if p.isOp("==>") {
		p.next()
		y := p.implies()
		return EBinary{"==>", x, y}
	}
	return x
}

func (p *sparser) or() Expr {
	x := p.and()
	for p.isOp("||") {
		p.next()
		x = EBinary{"||", x, p.and()}
	}
	return x
}

func (p *sparser) and() Expr {
	x := p.cmp()
	for p.isOp("&&") {
		p.next()
		x = EBinary{"&&", x, p.cmp()}
	}
	return x
}

func (p *sparser) cmp() Expr {
	x := p.add()
	for {
		t := p.peek()
		if t.kind == "op" && (t.text == "==" || t.text == "!=" || t.text == "<" || t.text == "<=" || t.text == ">" || t.text == ">=") {
			p.next()
			x = EBinary{t.text, x, p.add()}
			continue
		}
		if t.kind == "id" && t.text == "in" {
			p.next()
			x = EBinary{"in", x, p.add()}
			continue
		}
		return x
	}
}

func (p *sparser) add() Expr {
	x := p.mul()
	for p.isOp("+") || p.isOp("-") {
		op := p.next().text
		x = EBinary{op, x, p.mul()}
	}
	return x
}

func (p *sparser) mul() Expr {
	x := p.unary()
	for p.isOp("*") || p.isOp("/") || p.isOp("%") {
		op := p.next().text
		x = EBinary{op, x, p.unary()}
	}
	return x
}

func (p *sparser) unary() Expr {
	if p.isOp("!") || p.isOp("-") {
		op := p.next().text
		return EUnary{op, p.unary()}
	}
	return p.postfix()
}

func (p *sparser) postfix() Expr {
	x := p.primary()
	for {
		switch {
		case p.isOp("."):
			p.next()
			t := p.next()
			if t.kind != "id" && t.kind != "int" {
				p.fail("expected field name after '.'")
			}
			x = ESel{x, t.text}
		case p.isOp("["):
			p.next()
			if p.isOp(":") {
				p.next()
				var hi Expr
				if !p.isOp("]") {
					hi = p.expr()
				}
				p.expectOp("]")
				x = ESlice{x, nil, hi}
				continue
			}
			i := p.expr()
			switch {
			case p.isOp(":="):
				p.next()
				v := p.expr()
				p.expectOp("]")
				x = EUpd{x, i, v}
			case p.isOp(":"):
				p.next()
				var hi Expr
				if !p.isOp("]") {
					hi = p.expr()
				}
				p.expectOp("]")
				x = ESlice{x, i, hi}
			default:
				p.expectOp("]")
				x = EIndex{x, i}
			}
		default:
			return x
		}
	}
}

func (p *sparser) typeText() string {
	// a type: sequence of tokens up to ',' or '::' at depth 0
	var b strings.Builder
	depth := 0
	for {
		t := p.peek()
		if t.kind == "eof" {
			break
		}
		if t.kind == "op" && depth == 0 && (t.text == "," || t.text == "::") {
			break
		}
		if t.kind == "op" && (t.text == "[" || t.text == "(") {
			depth++
		}
		if t.kind == "op" && (t.text == "]" || t.text == ")") {
			depth--
		}
		b.WriteString(t.text)
		p.next()
	}
	return b.String()
}

func (p *sparser) primary() Expr {
	t := p.next()
	switch t.kind {
	case "int":
		return EInt{t.text}
	case "str":
		return EStr{t.text}
	case "qid":
		return EIdent{t.text}
	case "id":
		switch t.text {
		case "true":
			return EBool{true}
		case "false":
			return EBool{false}
		case "nil":
			return ENil{}
		case "forall", "exists":
			var vars []QVar
			for {
				n := p.next()
				if n.kind != "id" {
					p.fail("expected quantified variable name")
				}
				ty := p.typeText()
				vars = append(vars, QVar{n.text, ty})
				if p.isOp(",") {
					p.next()
					continue
				}
				break
			}
			p.expectOp("::")
			body := p.expr()
			return EQuant{t.text == "forall", vars, body}
		case "old":
			if p.isOp("(") {
				p.next()
				x := p.expr()
				p.expectOp(")")
				return EOld{x}
			}
		case "let":
			n := p.next()
			if n.kind != "id" {
				p.fail("expected name after let")
			}
			p.expectOp(":=")
			v := p.expr()
			p.expectOp("::")
			body := p.expr()
			return ELet{n.text, v, body}
		case "if":
			c := p.expr()
			if !p.isID("then") {
				p.fail("expected then")
			}
			p.next()
			a := p.expr()
			if !p.isID("else") {
				p.fail("expected else")
			}
			p.next()
			b := p.expr()
			return EIf{c, a, b}
		}
		if p.isOp("(") {
			p.next()
			var args []Expr
			for !p.isOp(")") {
				args = append(args, p.expr())
				if p.isOp(",") {
					p.next()
				}
			}
			p.expectOp(")")
			return ECall{t.text, args}
		}
		return EIdent{t.text}
	case "op":
		if t.text == "(" {
			x := p.expr()
			p.expectOp(")")
			return x
		}
	}
	p.fail("unexpected token %q", t.text)
	return nil
}

// ---- contract files ----

type Clause struct {
	Aux   bool // auxiliary-variable bookkeeping attached to an interface method: assumed at call sites, no obligation of implementations
	Label string
	Text  string
	E     Expr
	Src   string // file:line
}

type LoopSpec struct {
	Over       string // source text of the loop header this annotation was written for ("range xs", "for i < n"), optional
	Src        string
	Ordinal    int
	Invariants []Clause
	Hints      []Clause // proved (then assumed) at every back edge before the invariants: proof decomposition only
	Decreases  *Clause
}

type Contract struct {
	Pkg      string // package path of the file the contract was written in (name resolution context)
	Key      string // normalised function key
	Kind     string // func | iface | extern
	Params   []string // optional explicit parameter names (for iface/extern)
	Requires []Clause
	Ensures  []Clause
	Modifies []Clause
	PanicsUnless []Clause // run-time panic conditions of an extern: assumed (partial correctness) or, in the no-panic sweep, obligations
	Applies  string   // extern that calls its function-valued parameter once: the closure's contract is applied at the call site
	With     []Clause // facts about the arguments (arg0, arg1, ...) the extern passes to the applied closure
	Focus    map[string][]string // "focus <label> : <invariant labels>": the loop invariants an obligation with that label needs
	MustCall []MustCallSpec // "mustcall <callee key> on <receiver expr> once": a static callee is called exactly once on every return path
	Calls    *CallsSpec // "calls f(a, b, c) once": the function value f (a parameter or captured variable) is called exactly once on every return path, with these arguments
	Parfor   string   // parallel-for: this parameter is a worker closure run once per extent (see applyParfor)
	Worker   []string // worker closure: [index variable, offset parameter, entries parameter]
	Each     []Clause // per-index postconditions of a worker closure (each also added to Ensures as a quantified clause)
	SetEnsures []Clause // postcondition of running the call once for every key in the deferred set 'keys' (commutative-defer rule)
	Loops    map[int]*LoopSpec
	Reveal   map[string]bool // opaque spec functions whose definitions this proof may use
	ExitHints []Clause // proved (then assumed) at exit before the ensures clauses
	SiteHints map[string][]Clause // proved (then assumed) right after the named call site ("callee@n")
	Flags    map[string]bool // pure, inline, trusted, allocates...
	Src      string
}

type MustCallSpec struct {
	Key  string
	Recv *Clause // optional: the receiver (first argument) of the call
	Src  string
}

type CallsSpec struct {
	Fun  string
	Args []Clause
	Src  string
}

type SpecFunc struct {
	Pkg    string // package path of the contract file that defines it ("" for .spec files): names in the body resolve there
	Defined bool // "spec defined": an uninterpreted symbol plus its definition as a triggered axiom (keeps big bodies out of quantified formulas)
	Opaque bool // uninterpreted unless the contract under verification reveals it
	Name   string
	Params []QVar
	Result string
	Body   Expr // nil = uninterpreted
	Src    string
}

type GhostVar struct {
	Name    string
	Type    string // map[K]V | set[K] | sort
	Monotone bool  // grow-only set: every contract application and every verified body may only add elements
	Scratch bool   // bookkeeping local to one function (e.g. the pending write batch): exempt from callers' frame obligations
}

type Lemma struct {
	Reveal map[string]bool
	Name  string
	Pkg   string // package path giving the naming context
	Vars  []QVar
	Steps []LemmaStep
	Src   string
}

type SpecDB struct {
	Contracts map[string]*Contract
	Funcs     map[string]*SpecFunc
	FuncOrder []string
	Ghosts    map[string]*GhostVar
	GhostOrd  []string
	Axioms    []Clause
	Lemmas    []*Lemma
	RawSMT    []string
	Consts    map[string]string // name -> int literal / expr text
	Allow     []string          // effect-free package prefixes
}

func NewSpecDB() *SpecDB {
	return &SpecDB{Contracts: map[string]*Contract{}, Funcs: map[string]*SpecFunc{}, Ghosts: map[string]*GhostVar{}, Consts: map[string]string{}}
}

// splitLabel splits "[label] expr".
func splitLabel(s string) (string, string) {
	s = strings.TrimSpace(s)
	if strings.HasPrefix(s, "[") {
		if i := strings.Index(s, "]"); i > 0 {
			lab := s[1:i]
			ok := true
			for _, c := range lab {
				if !(unicode.IsLetter(c) || unicode.IsDigit(c) || c == '_' || c == '-') {
					ok = false
				}
			}
			if ok {
				return lab, strings.TrimSpace(s[i+1:])
			}
		}
	}
	return "", s
}

// ParseSpecText parses the directive lines (already stripped of the "//@" prefix).
func (db *SpecDB) ParseSpecText(lines []string, srcs []string) error {
	return db.ParseSpecTextIn(lines, srcs, "")
}

// ParseSpecTextIn parses directive lines written in the contract file of package pkg.
func (db *SpecDB) ParseSpecTextIn(lines []string, srcs []string, pkg string) error {
	var cur *Contract
	var curLoop *LoopSpec
	var curLemma *Lemma
	// join continuation lines: a line starting with whitespace+"|" continues the previous
	type ln struct{ text, src string }
	var joined []ln
	for i, l := range lines {
		t := strings.TrimSpace(l)
		if t == "" {
			continue
		}
		if strings.HasPrefix(t, "|") && len(joined) > 0 {
			joined[len(joined)-1].text += " " + strings.TrimSpace(t[1:])
			continue
		}
		joined = append(joined, ln{t, srcs[i]})
	}
	mk := func(rest, src string, auto string) (Clause, error) {
		lab, txt := splitLabel(rest)
		if lab == "" {
			lab = auto
		}
		e, err := ParseExpr(txt)
		if err != nil {
			return Clause{}, fmt.Errorf("%s: %v", src, err)
		}
		return Clause{Label: lab, Text: txt, E: e, Src: src}, nil
	}
	for _, l := range joined {
		word, rest := l.text, ""
		if i := strings.IndexAny(l.text, " \t"); i > 0 {
			word, rest = l.text[:i], strings.TrimSpace(l.text[i+1:])
		}
		switch word {
		case "func", "iface", "extern":
			key := rest
			var params []string
			if i := strings.Index(rest, "("); i > 0 && strings.HasSuffix(rest, ")") && !strings.HasPrefix(rest, "(") {
				key = strings.TrimSpace(rest[:i])
				for _, p := range strings.Split(rest[i+1:len(rest)-1], ",") {
					if p = strings.TrimSpace(p); p != "" {
						params = append(params, p)
					}
				}
			} else if strings.HasPrefix(rest, "(") {
				// method form "(*T).M" possibly followed by "(a, b)"
				if j := strings.LastIndex(rest, "("); j > 0 && strings.HasSuffix(rest, ")") && j > strings.Index(rest, ")") {
					key = strings.TrimSpace(rest[:j])
					for _, p := range strings.Split(rest[j+1:len(rest)-1], ",") {
						if p = strings.TrimSpace(p); p != "" {
							params = append(params, p)
						}
					}
				}
			}
			cur = &Contract{Pkg: pkg, Key: key, Kind: word, Params: params, Loops: map[int]*LoopSpec{}, Flags: map[string]bool{}, Src: l.src}
			if old, dup := db.Contracts[key]; dup {
				return fmt.Errorf("%s: duplicate contract for %s (first at %s)", l.src, key, old.Src)
			}
			db.Contracts[key] = cur
			curLoop, curLemma = nil, nil
		case "requires", "ensures", "modifies", "aux-ensures":
			aux := word == "aux-ensures"
			if aux {
				word = "ensures"
			}
			if cur == nil {
				return fmt.Errorf("%s: %s outside a contract", l.src, word)
			}
			n := 0
			switch word {
			case "requires":
				n = len(cur.Requires)
			case "ensures":
				n = len(cur.Ensures)
			}
			if word == "modifies" {
				for _, part := range splitTopLevel(rest, ',') {
					c, err := mk(part, l.src, "")
					if err != nil {
						return err
					}
					cur.Modifies = append(cur.Modifies, c)
				}
				continue
			}
			c, err := mk(rest, l.src, fmt.Sprintf("%s%d", word[:3], n+1))
			if err != nil {
				return err
			}
			if word == "requires" {
				cur.Requires = append(cur.Requires, c)
			} else {
				c.Aux = aux
				if aux && cur.Kind == "func" {
					return fmt.Errorf("%s: aux-ensures is for interface and extern contracts", l.src)
				}
				cur.Ensures = append(cur.Ensures, c)
			}
		case "panics-unless":
			if cur == nil {
				return fmt.Errorf("%s: panics-unless outside a contract", l.src)
			}
			c, err := mk(rest, l.src, fmt.Sprintf("nopanic%d", len(cur.PanicsUnless)+1))
			if err != nil {
				return err
			}
			cur.PanicsUnless = append(cur.PanicsUnless, c)
		case "focus":
			if cur == nil {
				return fmt.Errorf("%s: focus outside a contract", l.src)
			}
			parts := strings.SplitN(rest, ":", 2)
			if len(parts) != 2 {
				return fmt.Errorf("%s: focus <obligation label> : <invariant labels>", l.src)
			}
			if cur.Focus == nil {
				cur.Focus = map[string][]string{}
			}
			cur.Focus[strings.TrimSpace(parts[0])] = strings.Fields(parts[1])
		case "mustcall":
			// mustcall <callee key> [on <receiver expr>] once
			if cur == nil {
				return fmt.Errorf("%s: mustcall outside a contract", l.src)
			}
			t := strings.TrimSpace(strings.TrimSuffix(strings.TrimSpace(rest), "once"))
			ms := MustCallSpec{Src: l.src}
			if i := strings.Index(t, " on "); i > 0 {
				c, err := mk(t[i+4:], l.src, "recv")
				if err != nil {
					return err
				}
				ms.Recv = &c
				t = strings.TrimSpace(t[:i])
			}
			ms.Key = t
			cur.MustCall = append(cur.MustCall, ms)
		case "calls":
			// calls f(a, b, c) once
			if cur == nil {
				return fmt.Errorf("%s: calls outside a contract", l.src)
			}
			t := strings.TrimSpace(strings.TrimSuffix(strings.TrimSpace(rest), "once"))
			i := strings.Index(t, "(")
			if i <= 0 || !strings.HasSuffix(t, ")") {
				return fmt.Errorf("%s: calls f(args) once", l.src)
			}
			cs := &CallsSpec{Fun: strings.TrimSpace(t[:i]), Src: l.src}
			for k, a := range splitTopLevel(t[i+1:len(t)-1], ',') {
				c, err := mk(a, l.src, fmt.Sprintf("arg%d", k))
				if err != nil {
					return err
				}
				cs.Args = append(cs.Args, c)
			}
			cur.Calls = cs
		case "parfor":
			if cur == nil {
				return fmt.Errorf("%s: parfor outside a contract", l.src)
			}
			cur.Parfor = strings.TrimSpace(rest)
		case "worker":
			if cur == nil {
				return fmt.Errorf("%s: worker outside a contract", l.src)
			}
			cur.Worker = strings.Fields(rest)
			if len(cur.Worker) != 3 {
				return fmt.Errorf("%s: worker <index var> <offset param> <entries param>", l.src)
			}
		case "ensures-each":
			if cur == nil || len(cur.Worker) != 3 {
				return fmt.Errorf("%s: ensures-each needs a preceding 'worker' line", l.src)
			}
			c, err := mk(rest, l.src, fmt.Sprintf("each%d", len(cur.Each)+1))
			if err != nil {
				return err
			}
			cur.Each = append(cur.Each, c)
			iv, off, ent := cur.Worker[0], cur.Worker[1], cur.Worker[2]
			rng := EBinary{"&&", EBinary{"<=", EIdent{off}, EIdent{iv}}, EBinary{"<", EIdent{iv}, EBinary{"+", EIdent{off}, EIdent{ent}}}}
			q := c
			q.E = EQuant{true, []QVar{{iv, "int"}}, EBinary{"==>", rng, c.E}}
			q.Text = "forall " + iv + " in [" + off + ", " + off + "+" + ent + "): " + c.Text
			cur.Ensures = append(cur.Ensures, q)
		case "applies":
			if cur == nil {
				return fmt.Errorf("%s: applies outside a contract", l.src)
			}
			cur.Applies = strings.TrimSpace(rest)
		case "with":
			if cur == nil {
				return fmt.Errorf("%s: with outside a contract", l.src)
			}
			c, err := mk(rest, l.src, fmt.Sprintf("with%d", len(cur.With)+1))
			if err != nil {
				return err
			}
			cur.With = append(cur.With, c)
		case "setensures":
			if cur == nil {
				return fmt.Errorf("%s: setensures outside a contract", l.src)
			}
			c, err := mk(rest, l.src, fmt.Sprintf("setens%d", len(cur.SetEnsures)+1))
			if err != nil {
				return err
			}
			cur.SetEnsures = append(cur.SetEnsures, c)
		case "flag":
			if cur == nil {
				return fmt.Errorf("%s: flag outside a contract", l.src)
			}
			for _, f := range strings.Fields(rest) {
				cur.Flags[f] = true
			}
		case "loop":
			if cur == nil {
				return fmt.Errorf("%s: loop outside a contract", l.src)
			}
			var ord int
			if _, err := fmt.Sscanf(strings.TrimPrefix(rest, "#"), "%d", &ord); err != nil {
				return fmt.Errorf("%s: loop needs '#<ordinal>'", l.src)
			}
			curLoop = &LoopSpec{Ordinal: ord, Src: l.src}
			// optional tag "over <text of the loop header>": lets the annotations follow their loop when loops are
			// inserted or removed before it (LoopText)
			if i := strings.Index(rest, " over "); i > 0 {
				curLoop.Over = strings.TrimSpace(rest[i+len(" over "):])
			}
			cur.Loops[ord] = curLoop
		case "invariant":
			if curLoop == nil {
				return fmt.Errorf("%s: invariant outside a loop", l.src)
			}
			c, err := mk(rest, l.src, fmt.Sprintf("inv%d", len(curLoop.Invariants)+1))
			if err != nil {
				return err
			}
			curLoop.Invariants = append(curLoop.Invariants, c)
		case "hint-after":
			if cur == nil {
				return fmt.Errorf("%s: hint-after outside a contract", l.src)
			}
			f := strings.SplitN(rest, " ", 2)
			if len(f) != 2 {
				return fmt.Errorf("%s: hint-after <callee>@<n> [label] expr", l.src)
			}
			c, err := mk(f[1], l.src, "")
			if err != nil {
				return err
			}
			if cur.SiteHints == nil {
				cur.SiteHints = map[string][]Clause{}
			}
			if c.Label == "" {
				c.Label = fmt.Sprintf("h%d", len(cur.SiteHints[f[0]])+1)
			}
			cur.SiteHints[f[0]] = append(cur.SiteHints[f[0]], c)
		case "hint":
			c, err := mk(rest, l.src, "hint")
			if err != nil {
				return err
			}
			if curLoop != nil {
				if c.Label == "hint" {
					c.Label = fmt.Sprintf("hint%d", len(curLoop.Hints)+1)
				}
				curLoop.Hints = append(curLoop.Hints, c)
			} else if cur != nil {
				if c.Label == "hint" {
					c.Label = fmt.Sprintf("hint%d", len(cur.ExitHints)+1)
				}
				cur.ExitHints = append(cur.ExitHints, c)
			} else {
				return fmt.Errorf("%s: hint outside a contract", l.src)
			}
		case "decreases":
			if curLoop == nil {
				return fmt.Errorf("%s: decreases outside a loop", l.src)
			}
			c, err := mk(rest, l.src, "decreases")
			if err != nil {
				return err
			}
			curLoop.Decreases = &c
		case "ghost":
			// ghost name : type
			parts := strings.SplitN(rest, ":", 2)
			if len(parts) != 2 {
				return fmt.Errorf("%s: ghost name : type", l.src)
			}
			g := &GhostVar{Name: strings.TrimSpace(parts[0]), Type: strings.TrimSpace(parts[1])}
			if strings.HasPrefix(g.Name, "scratch ") {
				g.Scratch = true
				g.Name = strings.TrimSpace(g.Name[len("scratch "):])
			}
			if strings.HasPrefix(g.Name, "monotone ") {
				g.Monotone = true
				g.Name = strings.TrimSpace(g.Name[len("monotone "):])
				if !strings.HasPrefix(g.Type, "set[") {
					return fmt.Errorf("%s: only sets can be monotone", l.src)
				}
			}
			db.Ghosts[g.Name] = g
			db.GhostOrd = append(db.GhostOrd, g.Name)
		case "const":
			parts := strings.SplitN(rest, "=", 2)
			if len(parts) != 2 {
				return fmt.Errorf("%s: const name = value", l.src)
			}
			db.Consts[strings.TrimSpace(parts[0])] = strings.TrimSpace(parts[1])
		case "allow":
			db.Allow = append(db.Allow, strings.Fields(rest)...)
		case "reveal":
			switch {
			case curLemma != nil:
				if curLemma.Reveal == nil {
					curLemma.Reveal = map[string]bool{}
				}
				for _, f := range strings.Fields(rest) {
					curLemma.Reveal[f] = true
				}
			case cur != nil:
				if cur.Reveal == nil {
					cur.Reveal = map[string]bool{}
				}
				for _, f := range strings.Fields(rest) {
					cur.Reveal[f] = true
				}
			default:
				return fmt.Errorf("%s: reveal outside a contract or lemma", l.src)
			}
		case "spec":
			// spec [opaque] name(a T, b U) R [= expr]
			opaque, defined := false, false
			if strings.HasPrefix(rest, "opaque ") {
				opaque = true
				rest = strings.TrimSpace(rest[len("opaque "):])
			}
			if strings.HasPrefix(rest, "defined ") {
				defined = true
				rest = strings.TrimSpace(rest[len("defined "):])
			}
			sf, err := parseSpecFunc(rest, l.src)
			if err != nil {
				return err
			}
			sf.Opaque = opaque
			sf.Defined = defined
			if defined && sf.Body == nil {
				return fmt.Errorf("%s: spec defined needs a body", l.src)
			}
			sf.Pkg = pkg
			if prev, dup := db.Funcs[sf.Name]; dup && prev.Pkg != pkg {
				return fmt.Errorf("%s: spec function %s is already defined in %s (spec function names are global)", l.src, sf.Name, prev.Pkg)
			}
			db.Funcs[sf.Name] = sf
			db.FuncOrder = append(db.FuncOrder, sf.Name)
		case "axiom":
			c, err := mk(rest, l.src, fmt.Sprintf("axiom%d", len(db.Axioms)+1))
			if err != nil {
				return err
			}
			db.Axioms = append(db.Axioms, c)
		case "smt":
			db.RawSMT = append(db.RawSMT, rest)
		case "lemma":
			curLemma = &Lemma{Name: rest, Src: l.src}
			db.Lemmas = append(db.Lemmas, curLemma)
			cur, curLoop = nil, nil
		case "vars":
			if curLemma == nil {
				return fmt.Errorf("%s: vars outside lemma", l.src)
			}
			for _, part := range splitTopLevel(rest, ',') {
				f := strings.SplitN(strings.TrimSpace(part), " ", 2)
				if len(f) != 2 {
					return fmt.Errorf("%s: vars name Type, ...", l.src)
				}
				curLemma.Vars = append(curLemma.Vars, QVar{f[0], strings.TrimSpace(f[1])})
			}
		case "given", "show":
			if curLemma == nil {
				return fmt.Errorf("%s: %s outside lemma", l.src, word)
			}
			c, err := mk(rest, l.src, fmt.Sprintf("%s%d", word, len(curLemma.Steps)+1))
			if err != nil {
				return err
			}
			curLemma.Steps = append(curLemma.Steps, LemmaStep{Kind: word, Text: rest, C: c})
		case "call":
			if curLemma == nil {
				return fmt.Errorf("%s: call outside lemma", l.src)
			}
			key := rest
			if curLemma.Pkg != "" {
				key = expandKey(rest, curLemma.Pkg)
			}
			curLemma.Steps = append(curLemma.Steps, LemmaStep{Kind: "call", Text: key, C: Clause{Src: l.src}})
		case "establish":
			// establish <method key>(<receiver expr>): the receiver-only preconditions of the method hold for this receiver
			if curLemma == nil {
				return fmt.Errorf("%s: establish outside lemma", l.src)
			}
			key := rest
			if curLemma.Pkg != "" {
				key = expandKey(rest, curLemma.Pkg)
			}
			curLemma.Steps = append(curLemma.Steps, LemmaStep{Kind: "establish", Text: key, C: Clause{Src: l.src}})
		case "mark":
			if curLemma == nil {
				return fmt.Errorf("%s: mark outside lemma", l.src)
			}
			curLemma.Steps = append(curLemma.Steps, LemmaStep{Kind: "mark"})
		case "havoc":
			if curLemma == nil {
				return fmt.Errorf("%s: havoc outside lemma", l.src)
			}
			curLemma.Steps = append(curLemma.Steps, LemmaStep{Kind: "havoc", Text: rest, C: Clause{Src: l.src}})
		case "in":
			if curLemma == nil {
				return fmt.Errorf("%s: 'in' outside lemma", l.src)
			}
			curLemma.Pkg = rest
		case "#", "note":
			// comment
		default:
			return fmt.Errorf("%s: unknown directive %q", l.src, word)
		}
	}
	return nil
}

func splitTopLevel(s string, sep rune) []string {
	var out []string
	depth := 0
	last := 0
	for i, c := range s {
		switch c {
		case '(', '[':
			depth++
		case ')', ']':
			depth--
		default:
			if c == sep && depth == 0 {
				out = append(out, strings.TrimSpace(s[last:i]))
				last = i + 1
			}
		}
	}
	if t := strings.TrimSpace(s[last:]); t != "" {
		out = append(out, t)
	}
	return out
}

func parseSpecFunc(rest, src string) (*SpecFunc, error) {
	i := strings.Index(rest, "(")
	if i <= 0 {
		return nil, fmt.Errorf("%s: spec name(params) type [= body]", src)
	}
	name := strings.TrimSpace(rest[:i])
	// find matching paren
	depth, j := 0, i
	for ; j < len(rest); j++ {
		if rest[j] == '(' {
			depth++
		} else if rest[j] == ')' {
			depth--
			if depth == 0 {
				break
			}
		}
	}
	if j >= len(rest) {
		return nil, fmt.Errorf("%s: unbalanced parens", src)
	}
	sf := &SpecFunc{Name: name, Src: src}
	for _, p := range splitTopLevel(rest[i+1:j], ',') {
		f := strings.Fields(p)
		if len(f) != 2 {
			return nil, fmt.Errorf("%s: bad param %q", src, p)
		}
		sf.Params = append(sf.Params, QVar{f[0], f[1]})
	}
	tail := strings.TrimSpace(rest[j+1:])
	if k := strings.Index(tail, "="); k >= 0 && !strings.HasPrefix(tail[k:], "==") {
		sf.Result = strings.TrimSpace(tail[:k])
		e, err := ParseExpr(tail[k+1:])
		if err != nil {
			return nil, fmt.Errorf("%s: %v", src, err)
		}
		sf.Body = e
	} else {
		sf.Result = tail
	}
	if sf.Result == "" {
		return nil, fmt.Errorf("%s: spec func %s needs a result type", src, name)
	}
	return sf, nil
}
