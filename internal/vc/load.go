package vc

import (
	"sort"
	"bufio"
	"fmt"
	"go/ast"
	"go/token"
	"go/types"
	"os"
	"path/filepath"
	"regexp"
	"strconv"
	"strings"

	"golang.org/x/tools/go/packages"
	"golang.org/x/tools/go/ssa"
	"golang.org/x/tools/go/ssa/ssautil"
)

const ModPath = "github.com/attestantio/dirk"

// Program is the loaded repository plus specifications.
type Program struct {
	Repo    string
	Fset    *token.FileSet
	Pkgs    []*packages.Package
	ByPath  map[string]*packages.Package
	ByName  map[string][]*packages.Package
	SSA     *ssa.Program
	Spec    *SpecDB
	built   map[*ssa.Package]bool
	typeIDs map[string]int
	typeByID map[int]types.Type
	// every trusted item actually used in this run
	Trusted map[string]bool
	assignScan map[string]bool
}

// Load loads the given package patterns of the repository (with all dependencies, from source).
func Load(repo string, patterns []string) (*Program, error) {
	cfg := &packages.Config{
		Mode:       packages.LoadAllSyntax,
		Dir:        repo,
		BuildFlags: []string{"-tags=verif"},
		Env:        append(os.Environ(), "GOFLAGS=-mod=mod", "GOPROXY=off", "GOSUMDB=off", "GOTOOLCHAIN=local"),
	}
	pkgs, err := packages.Load(cfg, patterns...)
	if err != nil {
		return nil, err
	}
	var errs []string
	packages.Visit(pkgs, nil, func(p *packages.Package) {
		if strings.HasPrefix(p.PkgPath, ModPath) {
			for _, e := range p.Errors {
				errs = append(errs, e.Error())
			}
		}
	})
	if len(errs) > 0 {
		return nil, fmt.Errorf("package errors: %s", strings.Join(errs, "; "))
	}
	prog, _ := ssautil.AllPackages(pkgs, ssa.GlobalDebug)
	p := &Program{Repo: repo, Pkgs: pkgs, SSA: prog, ByPath: map[string]*packages.Package{}, ByName: map[string][]*packages.Package{},
		built: map[*ssa.Package]bool{}, typeIDs: map[string]int{}, typeByID: map[int]types.Type{}, Trusted: map[string]bool{}, Spec: NewSpecDB()}
	packages.Visit(pkgs, nil, func(pk *packages.Package) {
		p.ByPath[pk.PkgPath] = pk
		p.ByName[pk.Name] = append(p.ByName[pk.Name], pk)
		if p.Fset == nil {
			p.Fset = pk.Fset
		}
	})
	return p, nil
}

func (p *Program) build(pkg *ssa.Package) {
	if pkg == nil || p.built[pkg] {
		return
	}
	p.built[pkg] = true
	pkg.Build()
}

// FindPackage resolves a short package name or full path.
func (p *Program) FindPackage(name string, from *types.Package) *types.Package {
	if pk, ok := p.ByPath[name]; ok {
		return pk.Types
	}
	// imports of the 'from' package first
	if from != nil {
		if from.Name() == name {
			return from
		}
		for _, imp := range from.Imports() {
			if imp.Name() == name {
				return imp
			}
		}
		// import aliases: scan syntax
		if pk, ok := p.ByPath[from.Path()]; ok {
			for _, f := range pk.Syntax {
				for _, is := range f.Imports {
					if is.Name != nil && is.Name.Name == name {
						path := strings.Trim(is.Path.Value, `"`)
						if q, ok := p.ByPath[path]; ok {
							return q.Types
						}
					}
				}
			}
		}
	}
	// module packages by short name, preferring a unique one
	var cands []*packages.Package
	for _, pk := range p.ByName[name] {
		if strings.HasPrefix(pk.PkgPath, ModPath) {
			cands = append(cands, pk)
		}
	}
	if len(cands) == 1 {
		return cands[0].Types
	}
	if len(cands) == 0 && len(p.ByName[name]) == 1 {
		return p.ByName[name][0].Types
	}
	return nil
}

// LoadContracts reads every verif_contracts.go below the repository root and the spec files.
func (p *Program) LoadContracts(specDir string) error {
	// spec files
	files, _ := filepath.Glob(filepath.Join(specDir, "*.spec"))
	for _, f := range files {
		lines, srcs, err := readSpecLines(f, false)
		if err != nil {
			return err
		}
		if err := p.Spec.ParseSpecText(lines, srcs); err != nil {
			return err
		}
	}
	// contract files in the repo
	err := filepath.Walk(p.Repo, func(path string, info os.FileInfo, err error) error {
		if err != nil {
			return nil
		}
		if info.IsDir() && (info.Name() == ".git" || info.Name() == "vendor") {
			return filepath.SkipDir
		}
		if info.IsDir() || info.Name() != "verif_contracts.go" {
			return nil
		}
		rel, _ := filepath.Rel(p.Repo, filepath.Dir(path))
		pkgPath := ModPath
		if rel != "." {
			pkgPath = ModPath + "/" + filepath.ToSlash(rel)
		}
		lines, srcs, err := readSpecLines(path, true)
		if err != nil {
			return err
		}
		// expand short keys with the package path
		for i, l := range lines {
			t := strings.TrimSpace(l)
			for _, w := range []string{"func ", "iface "} {
				if strings.HasPrefix(t, w) {
					k := strings.TrimSpace(t[len(w):])
					if w == "iface " && !strings.HasPrefix(k, "(") {
						// "T.M(params)" -> "(T).M(params)"
						params := ""
						if j := strings.Index(k, "("); j > 0 {
							params = k[j:]
							k = k[:j]
						}
						if d := strings.LastIndex(k, "."); d > 0 {
							k = "(" + k[:d] + ")." + k[d+1:] + params
						}
					}
					lines[i] = w + expandKey(k, pkgPath)
				}
			}
		}
		return p.Spec.ParseSpecTextIn(lines, srcs, pkgPath)
	})
	return err
}

// expandKey turns "(*Service).OnSign" into "(*<pkg>.Service).OnSign", "Scatter" into "<pkg>.Scatter"
// and "Service.OnSign" (interface) into "(<pkg>.Service).OnSign". Keys that already contain a '/' or a known
// qualified form are left alone.
func expandKey(key, pkgPath string) string {
	params := ""
	if i := strings.Index(key, ")("); i > 0 {
		params = key[i+1:]
		key = key[:i+1]
	} else if !strings.HasPrefix(key, "(") {
		if i := strings.Index(key, "("); i > 0 {
			params = key[i:]
			key = key[:i]
		}
	} else {
		// "(*T).M(a,b)"
		if i := strings.LastIndex(key, "("); i > 0 && strings.HasSuffix(key, ")") && i > strings.Index(key, ")") {
			params = key[i:]
			key = key[:i]
		}
	}
	if strings.Contains(key, "/") {
		return key + params
	}
	if strings.HasPrefix(key, "(*") {
		return "(*" + pkgPath + "." + key[2:] + params
	}
	if strings.HasPrefix(key, "(") {
		return "(" + pkgPath + "." + key[1:] + params
	}
	return pkgPath + "." + key + params
}

func readSpecLines(path string, goComments bool) ([]string, []string, error) {
	f, err := os.Open(path)
	if err != nil {
		return nil, nil, err
	}
	defer f.Close()
	var lines, srcs []string
	sc := bufio.NewScanner(f)
	sc.Buffer(make([]byte, 1<<20), 1<<20)
	n := 0
	for sc.Scan() {
		n++
		t := sc.Text()
		if goComments {
			tt := strings.TrimSpace(t)
			if !strings.HasPrefix(tt, "//@") {
				continue
			}
			t = tt[3:]
		} else {
			tt := strings.TrimSpace(t)
			if strings.HasPrefix(tt, "//") || strings.HasPrefix(tt, ";") {
				continue
			}
		}
		lines = append(lines, t)
		srcs = append(srcs, fmt.Sprintf("%s:%d", path, n))
	}
	return lines, srcs, sc.Err()
}

// FindFunc resolves a canonical function key to its SSA function.
func (p *Program) FindFunc(key string) *ssa.Function {
	// closures: "<parent>$1" (possibly nested)
	base := key
	var clos []string
	for {
		i := strings.LastIndex(base, "$")
		if i < 0 {
			break
		}
		suffix := base[i+1:]
		isNum := suffix != ""
		for _, c := range suffix {
			if c < '0' || c > '9' {
				isNum = false
			}
		}
		if !isNum {
			break
		}
		clos = append([]string{suffix}, clos...)
		base = base[:i]
	}
	var fn *ssa.Function
	if strings.HasPrefix(base, "(") {
		// method: (*pkg.T).M or (pkg.T).M
		end := strings.Index(base, ").")
		if end < 0 {
			return nil
		}
		recv := base[1:end]
		meth := base[end+2:]
		ptr := strings.HasPrefix(recv, "*")
		recv = strings.TrimPrefix(recv, "*")
		dot := strings.LastIndex(recv, ".")
		if dot < 0 {
			return nil
		}
		pk := p.ByPath[recv[:dot]]
		if pk == nil {
			return nil
		}
		obj := pk.Types.Scope().Lookup(recv[dot+1:])
		if obj == nil {
			return nil
		}
		var t types.Type = obj.Type()
		if ptr {
			t = types.NewPointer(t)
		}
		sel := p.SSA.MethodSets.MethodSet(t).Lookup(pk.Types, meth)
		if sel == nil {
			return nil
		}
		fn = p.SSA.MethodValue(sel)
	} else {
		dot := strings.LastIndex(base, ".")
		if dot < 0 {
			return nil
		}
		pk := p.ByPath[base[:dot]]
		if pk == nil {
			return nil
		}
		sp := p.SSA.Package(pk.Types)
		if sp == nil {
			return nil
		}
		fn = sp.Func(base[dot+1:])
	}
	if fn == nil {
		return nil
	}
	p.build(fn.Pkg)
	for _, c := range clos {
		var found *ssa.Function
		for _, a := range fn.AnonFuncs {
			if a.Name() == fn.Name()+"$"+c {
				found = a
			}
		}
		if found == nil {
			return nil
		}
		fn = found
	}
	return fn
}

// FuncKey is the canonical key of an SSA function.
func FuncKey(fn *ssa.Function) string {
	if fn.Parent() != nil {
		// closure: parent key + suffix
		pk := FuncKey(fn.Parent())
		suffix := strings.TrimPrefix(fn.Name(), fn.Parent().Name())
		return pk + suffix
	}
	return fn.String()
}

// byte and rune are aliases: one dynamic type, one tag
func (p *Program) typeID(t types.Type) int {
	s := aliasRE.ReplaceAllStringFunc(types.TypeString(t, nil), func(m string) string {
		switch m {
		case "byte":
			return "uint8"
		case "rune":
			return "int32"
		}
		return "interface{}"
	})
	if id, ok := p.typeIDs[s]; ok {
		return id
	}
	id := len(p.typeIDs) + 1
	p.typeIDs[s] = id
	p.typeByID[id] = t
	return id
}

// globalWrittenOutsideInit reports whether any loaded function other than package initialisers stores to g.
func (p *Program) globalInit(g *ssa.Global) ast.Expr {
	pk := p.ByPath[g.Pkg.Pkg.Path()]
	if pk == nil {
		return nil
	}
	for _, f := range pk.Syntax {
		for _, d := range f.Decls {
			gd, ok := d.(*ast.GenDecl)
			if !ok || gd.Tok != token.VAR {
				continue
			}
			for _, s := range gd.Specs {
				vs := s.(*ast.ValueSpec)
				for i, n := range vs.Names {
					if n.Name == g.Name() && i < len(vs.Values) && len(vs.Names) == len(vs.Values) {
						return vs.Values[i]
					}
				}
			}
		}
	}
	return nil
}

// neverAssigned scans the repository's non-test Go sources for anything that could change a package-level variable
// after its initialisation: an assignment to the (qualified or unqualified) name, or taking its address. The scan is
// textual and errs on the side of "assigned" (a local of the same name counts), so a positive answer is safe to rely on.
func (p *Program) neverAssigned(g *ssa.Global) bool {
	if p.assignScan == nil {
		p.assignScan = map[string]bool{}
	}
	key := g.Pkg.Pkg.Path() + "." + g.Name()
	if v, ok := p.assignScan[key]; ok {
		return v
	}
	name := regexp.QuoteMeta(g.Name())
	pkgName := regexp.QuoteMeta(g.Pkg.Pkg.Name())
	pkgDir := ""
	if pk := p.ByPath[g.Pkg.Pkg.Path()]; pk != nil && len(pk.GoFiles) > 0 {
		pkgDir = filepath.Dir(pk.GoFiles[0])
	}
	qual := regexp.MustCompile(`(\b[A-Za-z_][A-Za-z0-9_]*\.` + name + `\s*(=[^=]|\+=|-=|\+\+|--))|(&\s*[A-Za-z_][A-Za-z0-9_]*\.` + name + `\b)`)
	unq := regexp.MustCompile(`((^|[^.A-Za-z0-9_])` + name + `\s*(=[^=]|:=|\+=|-=|\+\+|--))|(&\s*` + name + `\b)`)
	_ = pkgName
	ok := true
	filepath.Walk(p.Repo, func(path string, info os.FileInfo, err error) error {
		if err != nil || !ok {
			return nil
		}
		if info.IsDir() {
			if n := info.Name(); n == ".git" || n == "vendor" || n == "testdata" {
				return filepath.SkipDir
			}
			return nil
		}
		if !strings.HasSuffix(path, ".go") || strings.HasSuffix(path, "_test.go") {
			return nil
		}
		b, err := os.ReadFile(path)
		if err != nil {
			ok = false
			return nil
		}
		src := string(b)
		if !strings.Contains(src, g.Name()) {
			return nil
		}
		if qual.MatchString(src) {
			ok = false
			return nil
		}
		if filepath.Dir(path) == pkgDir {
			// inside the declaring package: the declaration itself ("Name = value" inside a var block) is the one allowed match
			n := len(unq.FindAllStringIndex(src, -1))
			decl := regexp.MustCompile(`(?m)^\s*(var\s+)?` + name + `(\s+[A-Za-z_\[\]\*\.0-9]+)?\s*=[^=]`)
			n -= len(decl.FindAllStringIndex(src, -1))
			if n > 0 {
				ok = false
			}
		}
		return nil
	})
	p.assignScan[key] = ok
	return ok
}

// globalStringConst: a package-level string variable initialised by a string literal and never assigned afterwards.
func (p *Program) globalStringConst(g *ssa.Global) (string, bool) {
	pt := g.Type().(*types.Pointer).Elem()
	b, ok := pt.Underlying().(*types.Basic)
	if !ok || b.Kind() != types.String {
		return "", false
	}
	lit, ok := p.globalInit(g).(*ast.BasicLit)
	if !ok || lit.Kind != token.STRING {
		return "", false
	}
	s, err := strconv.Unquote(lit.Value)
	if err != nil {
		return "", false
	}
	if !p.neverAssigned(g) {
		return "", false
	}
	return s, true
}

// FrozenFields scans the SSA of the declaring package for writes to the fields of an existing object of the named
// struct type: a store through a field address whose base is not an allocation of the same function (a composite
// literal under construction), or a field address of interface/pointer/map/slice/chan type that escapes (anything
// but a load or a store through it). An empty result means: once constructed, the fields keep their values, so what
// the constructor establishes about them is an object invariant.
func (p *Program) FrozenFields(pkgPath, typeName string) []string {
	pk := p.ByPath[pkgPath]
	if pk == nil {
		return []string{"package " + pkgPath + " not loaded"}
	}
	sp := p.SSA.Package(pk.Types)
	if sp == nil {
		return []string{"no SSA for " + pkgPath}
	}
	p.build(sp)
	obj := pk.Types.Scope().Lookup(typeName)
	if obj == nil {
		return []string{"type " + typeName + " not found in " + pkgPath}
	}
	st, ok := obj.Type().Underlying().(*types.Struct)
	if !ok {
		return []string{typeName + " is not a struct"}
	}
	for i := 0; i < st.NumFields(); i++ {
		if st.Field(i).Exported() && !st.Field(i).Embedded() {
			return []string{"field " + st.Field(i).Name() + " is exported: writes outside the package are possible"}
		}
	}
	var out []string
	var visit func(fn *ssa.Function)
	seen := map[*ssa.Function]bool{}
	visit = func(fn *ssa.Function) {
		if fn == nil || seen[fn] {
			return
		}
		seen[fn] = true
		for _, b := range fn.Blocks {
			for _, ins := range b.Instrs {
				fa, ok := ins.(*ssa.FieldAddr)
				if !ok {
					continue
				}
				pt, ok := fa.X.Type().Underlying().(*types.Pointer)
				if !ok || !types.Identical(pt.Elem(), obj.Type()) {
					continue
				}
				if _, fresh := fa.X.(*ssa.Alloc); fresh {
					continue
				}
				ft := st.Field(fa.Field).Type().Underlying()
				refLike := false
				switch ft.(type) {
				case *types.Interface, *types.Pointer, *types.Map, *types.Slice, *types.Chan, *types.Signature:
					refLike = true
				}
				for _, r := range *fa.Referrers() {
					switch r := r.(type) {
					case *ssa.Store:
						if r.Addr == fa {
							out = append(out, fmt.Sprintf("%s: %s.%s is assigned in %s", p.Fset.Position(r.Pos()), typeName, st.Field(fa.Field).Name(), fn.String()))
						}
					case *ssa.UnOp, *ssa.DebugRef:
					default:
						if refLike {
							out = append(out, fmt.Sprintf("%s: the address of %s.%s escapes in %s", p.Fset.Position(fa.Pos()), typeName, st.Field(fa.Field).Name(), fn.String()))
						}
					}
				}
			}
		}
		for _, a := range fn.AnonFuncs {
			visit(a)
		}
	}
	for _, m := range sp.Members {
		switch m := m.(type) {
		case *ssa.Function:
			visit(m)
		case *ssa.Type:
			for _, t := range []types.Type{m.Type(), types.NewPointer(m.Type())} {
				ms := p.SSA.MethodSets.MethodSet(t)
				for i := 0; i < ms.Len(); i++ {
					visit(p.SSA.MethodValue(ms.At(i)))
				}
			}
		}
	}
	sort.Strings(out)
	return out
}

// BuildFor makes sure the SSA body of fn is built.
func (p *Program) BuildFor(fn *ssa.Function) {
	if fn != nil && fn.Pkg != nil {
		p.build(fn.Pkg)
	}
}
