package vc

import (
	"go/token"
	"fmt"
	"go/types"
	"strings"

	"golang.org/x/tools/go/ssa"
)

// effect-free packages: calls return unconstrained values and modify nothing (DESIGN 2.3).
var defaultAllow = []string{
	"github.com/rs/zerolog",
	"github.com/opentracing/opentracing-go",
	"go.opentelemetry.io/otel",
	"github.com/prometheus/client_golang",
	"github.com/attestantio/dirk/util/loggers",
	"github.com/attestantio/dirk/services/metrics",
}

func (e *Exec) allowed(pkgPath string) bool {
	for _, a := range defaultAllow {
		if pkgPath == a || strings.HasPrefix(pkgPath, a+"/") {
			return true
		}
	}
	for _, a := range e.P.Spec.Allow {
		if strings.HasPrefix(a, "=") {
			// "=pkg": this package only, not the packages below it
			if pkgPath == a[1:] {
				return true
			}
			continue
		}
		if pkgPath == a || strings.HasPrefix(pkgPath, a+"/") {
			return true
		}
	}
	return false
}

func (e *Exec) doCall(fr *Frame, ins ssa.Instruction, c *ssa.CallCommon, st *State, g string, isDefer bool) Val {
	return e.doCallCommon(fr, ins, c, st, g, isDefer, false)
}

func (e *Exec) siteName(callee string) string {
	short := callee
	if i := strings.LastIndex(short, "/"); i >= 0 {
		short = short[i+1:]
	}
	e.siteCount[short]++
	return fmt.Sprintf("%s@%d", short, e.siteCount[short])
}

func (e *Exec) doCallCommon(fr *Frame, ins ssa.Instruction, c *ssa.CallCommon, st *State, g string, isDefer, isGo bool) Val {
	var resT types.Type = c.Signature().Results()
	if c.Signature().Results().Len() == 1 {
		resT = c.Signature().Results().At(0).Type()
	}
	var args []Val
	for _, a := range c.Args {
		args = append(args, e.val(fr, a))
	}
	if c.IsInvoke() {
		recv := e.val(fr, c.Value)
		key := c.Method.FullName()
		all := append([]Val{recv}, args...)
		if recv.S == SAny && !isDefer && !(c.Method.Pkg() != nil && e.allowed(c.Method.Pkg().Path())) {
			// a method call on a nil interface value panics
			e.safety(fr, ins, g, Not(Eq(recv.T, "anynil")), "nil-iface")
		}
		if ctr := e.P.Spec.Contracts[key]; ctr != nil {
			names := ctr.Params
			if len(names) == 0 {
				names = append([]string{"self"}, sigParamNames(c.Signature())...)
			}
			return e.applyContract(fr, ins, ctr, names, all, resT, st, g, isGo)
		}
		if c.Method.Pkg() != nil && e.allowed(c.Method.Pkg().Path()) {
			e.P.Trusted["effect-free: "+c.Method.Pkg().Path()] = true
			return e.freshResult(fr, ins, resT, st)
		}
		if c.Method.Name() == "Error" && c.Signature().Params().Len() == 0 && c.Signature().Results().Len() == 1 {
			r := e.Out.Define(fr.prefix+valueName(ins), SStr, "(errstr "+recv.T+")")
			return Val{T: r, S: SStr, Ty: resT}
		}
		e.unsupported("uncontracted interface call %s in %s", key, FuncKey(fr.fn))
	}
	switch callee := c.Value.(type) {
	case *ssa.Builtin:
		return e.doBuiltin(fr, ins, callee, c, args, st, g)
	case *ssa.Function:
		return e.callFunction(fr, ins, callee, args, nil, resT, st, g, isGo)
	case *ssa.MakeClosure:
		clo := e.val(fr, callee)
		return e.callFunction(fr, ins, callee.Fn.(*ssa.Function), args, clo.Clo.Bindings, resT, st, g, isGo)
	default:
		v := e.val(fr, c.Value)
		if v.Clo != nil {
			if fn, ok := v.Clo.Fn.(*ssa.Function); ok {
				return e.callFunction(fr, ins, fn, args, v.Clo.Bindings, resT, st, g, isGo)
			}
		}
		// a contract may be attached to the dynamic callee by parameter name: "<func>.<param>"
		if p, ok := c.Value.(*ssa.Parameter); ok {
			key := FuncKey(fr.fn) + "." + p.Name()
			if ctr := e.P.Spec.Contracts[key]; ctr != nil {
				// the contract of a function-valued parameter may also mention the enclosing function's parameters
				names := append([]string{}, ctr.Params...)
				all := append([]Val{}, args...)
				for i, op := range fr.fn.Params {
					if i < len(fr.args) {
						names = append(names, op.Name())
						all = append(all, fr.args[i])
					}
				}
				return e.applyContract(fr, ins, ctr, names, all, resT, st, g, isGo)
			}
		}
		// "calls f(args) once": the call of a function value the contract names; its arguments are obligations, its
		// effect is that of an unknown function of the declared shape (result fresh, nothing of the caller's frame changed)
		if fr.ctr != nil && fr.ctr.Calls != nil && calleeVarName(c.Value) == fr.ctr.Calls.Fun {
			cs := fr.ctr.Calls
			if len(cs.Args) != len(args) {
				e.unsupported("%s: calls %s with %d arguments, the code passes %d", FuncKey(fr.fn), cs.Fun, len(cs.Args), len(args))
			}
			env := e.envForFunc(fr, st, fr.entryState, nil)
			env.block = ins.Block()
			for i, a := range cs.Args {
				want := e.evalSpec(a.E, env)
				got := args[i]
				gt := got.T
				if got.Addr != nil || got.Clo != nil {
					gt = e.scalar(got)
				}
				e.Out.AddObl(&Obligation{Name: fmt.Sprintf("%s/calls:%s/arg%d", FuncKey(fr.fn), cs.Fun, i), Func: FuncKey(fr.fn), Kind: "calls", Label: fmt.Sprintf("arg%d", i), Text: "argument " + fmt.Sprint(i) + " of the call of " + cs.Fun + " is " + a.Text, Src: cs.Src,
					Formula: Imp(g, Eq(gt, want.T)), Inputs: e.obsInputs(fr)})
			}
			cnt := e.get(st, "$calls$"+cs.Fun, SInt)
			e.set(st, "$calls$"+cs.Fun, SInt, Ite(g, "(+ "+cnt+" 1)", cnt))
			return e.freshResult(fr, ins, resT, st)
		}
		e.unsupported("dynamic call through %s in %s", c.Value.Name(), FuncKey(fr.fn))
	}
	return Val{}
}

func valueName(ins ssa.Instruction) string {
	if v, ok := ins.(ssa.Value); ok {
		return v.Name()
	}
	return fmt.Sprintf("i%p", ins)
}

func sigParamNames(sig *types.Signature) []string {
	var out []string
	for i := 0; i < sig.Params().Len(); i++ {
		n := sig.Params().At(i).Name()
		if n == "" || n == "_" {
			n = fmt.Sprintf("arg%d", i)
		}
		out = append(out, n)
	}
	return out
}

func (e *Exec) freshResult(fr *Frame, ins ssa.Instruction, resT types.Type, st *State) Val {
	if t, ok := resT.(*types.Tuple); ok && t.Len() == 0 {
		return Val{}
	}
	return e.freshTyped(fr.prefix+valueName(ins)+"$res", resT, st)
}

func hasLoops(fn *ssa.Function) bool {
	for _, b := range fn.Blocks {
		if isLoopHeader(b) {
			return true
		}
	}
	return false
}

func (e *Exec) callFunction(fr *Frame, ins ssa.Instruction, fn *ssa.Function, args, binds []Val, resT types.Type, st *State, g string, isGo bool) Val {
	key := FuncKey(fn)
	if fr.ctr != nil && fr.depth == 0 {
		for i, mc := range fr.ctr.MustCall {
			if mc.Key != key {
				continue
			}
			name := fmt.Sprintf("$calls$must%d", i)
			cnt := e.get(st, name, SInt)
			cond := g
			if mc.Recv != nil && len(args) > 0 {
				// "on <receiver>": only calls on that receiver (evaluated when the call is made) are counted; calls of the
				// same callee on other receivers are not this clause's business
				env := e.envForFunc(fr, st, fr.entryState, nil)
				env.block = ins.Block()
				want := e.evalSpec(mc.Recv.E, env)
				got := args[0]
				gt := got.T
				if got.Addr != nil {
					gt = e.reify(got)
				}
				wt := want.T
				if want.Addr != nil {
					wt = e.reify(want)
				}
				cond = And(g, Eq(gt, wt))
			}
			e.set(st, name, SInt, Ite(cond, "(+ "+cnt+" 1)", cnt))
		}
	}
	ctr := e.P.Spec.Contracts[key]
	if ctr != nil && !ctr.Flags["inline"] {
		names := ctr.Params
		if len(names) == 0 {
			for _, p := range fn.Params {
				names = append(names, p.Name())
			}
			if len(fn.Params) == 0 && len(args) > 0 {
				// the body of a function of another package has not been built: take the names from the signature
				if r := fn.Signature.Recv(); r != nil {
					names = append(names, r.Name())
				}
				names = append(names, sigParamNames(fn.Signature)...)
			}
		}
		all := args
		if len(binds) > 0 {
			// closures: free variables are visible to the contract by name
			for i, fv := range fn.FreeVars {
				names = append(names, fv.Name())
				all = append(all, e.fvVal(fv, binds[i]))
			}
		}
		return e.applyContract(fr, ins, ctr, names, all, resT, st, g, isGo)
	}
	pkgPath := ""
	if fn.Pkg != nil {
		pkgPath = fn.Pkg.Pkg.Path()
	} else if fn.Object() != nil && fn.Object().Pkg() != nil {
		pkgPath = fn.Object().Pkg().Path()
	}
	if e.allowed(pkgPath) {
		e.P.Trusted["effect-free: "+pkgPath] = true
		return e.freshResult(fr, ins, resT, st)
	}
	inlinable := strings.HasPrefix(pkgPath, ModPath) || e.inlineDep(pkgPath) || (ctr != nil && ctr.Flags["inline"])
	if inlinable {
		if fn.Pkg != nil {
			e.P.build(fn.Pkg)
		}
		// functions of the module without a contract are inlined; their loops, if any, are cut with the automatic
		// invariants (a helper extracted from a verified function keeps the function verifiable where the helper's
		// loop does not matter to the contract, and fails the named obligation where it does)
		ownLoops := hasLoops(fn) && ctr == nil && strings.HasPrefix(pkgPath, ModPath)
		if len(fn.Blocks) > 0 && (!hasLoops(fn) || ownLoops || (ctr != nil && ctr.Flags["inline"])) && fr.depth < 4 && !isGo {
			sub := e.newFrame(fn, args, binds, fr.depth+1, ctr)
			sub.entryState = st.clone()
			res, st2, exitG := e.runFrame(sub, st, g)
			// paths on which the callee does not return (panic) end here: assume the call returned
			e.assume(g, exitG)
			for k := range st.H {
				delete(st.H, k)
			}
			for k, v := range st2.H {
				st.H[k] = v
			}
			return res
		}
	}
	e.unsupported("uncontracted call to %s in %s", key, FuncKey(fr.fn))
	return Val{}
}

// inlineDep lists dependency packages whose small functions are inlined from their SSA bodies.
func (e *Exec) inlineDep(pkgPath string) bool {
	switch pkgPath {
	case "github.com/wealdtech/eth2-signer-api/pb/v1":
		return true
	}
	return false
}

// applyContract is the modular call rule: assert pre, havoc frame, assume post.
func (e *Exec) applyContract(fr *Frame, ins ssa.Instruction, ctr *Contract, names []string, args []Val, resT types.Type, st *State, g string, isGo bool) Val {
	site := e.siteName(ctr.Key)
	e.P.Trusted["used contract: "+ctr.Key] = true
	if ctr.Kind == "extern" {
		e.P.Trusted["extern contract: "+ctr.Key] = true
	}
	env := &Env{e: e, vars: map[string]Val{}, st: st, old: st, fr: fr}
	if ctr.Pkg != "" {
		if pk := e.P.ByPath[ctr.Pkg]; pk != nil {
			env.home = pk.Types
		}
	}
	for i, n := range names {
		if i < len(args) {
			env.vars[n] = args[i]
		}
	}
	pre := st.clone()
	env.st, env.old = pre, pre
	if isGo && fr.ctr != nil && fr.ctr.Parfor != "" && len(args) >= 2 {
		// the function under verification is a parallel-for driver: the extent it hands to each spawned worker
		// must satisfy the 'with' clauses its callers rely on
		wenv := e.envForFunc(fr, pre, fr.entryState, nil)
		wenv.block = ins.Block()
		wenv = wenv.with("arg0", args[0]).with("arg1", args[1])
		for _, w := range fr.ctr.With {
			t := e.evalBool(w, wenv)
			e.Out.AddObl(&Obligation{Name: fmt.Sprintf("%s/spawn:%s/with:%s", FuncKey(fr.fn), site, w.Label), Func: FuncKey(fr.fn), Kind: "with", Label: w.Label, Text: w.Text, Src: w.Src,
				Formula: Imp(g, t), Inputs: e.obsInputs(fr), Obs: e.lastObs})
		}
	}
	for _, c := range ctr.PanicsUnless {
		e.safety(fr, ins, g, e.evalBool(c, env), "callee-panic:"+c.Label)
	}
	if ctr.Applies != "" {
		// higher-order extern (db.Update(fn), item.Value(fn), ...): the closure passed for this parameter is run once;
		// its own contract (verified separately on its body) is applied here
		cv, ok := env.vars[ctr.Applies]
		if !ok || cv.Clo == nil {
			e.unsupported("%s applies parameter %q, which is not a statically known closure here", ctr.Key, ctr.Applies)
		}
		cfn, ok := cv.Clo.Fn.(*ssa.Function)
		if !ok {
			e.unsupported("%s applies a builtin", ctr.Key)
		}
		cctr := e.P.Spec.Contracts[FuncKey(cfn)]
		if cctr == nil {
			e.unsupported("closure %s (applied by %s) has no contract", FuncKey(cfn), ctr.Key)
		}
		var cnames []string
		var cargs []Val
		for i, p := range cfn.Params {
			a := e.freshTyped(fr.prefix+valueName(ins)+"$cbarg", p.Type(), st)
			cnames = append(cnames, p.Name())
			cargs = append(cargs, a)
			env.vars[fmt.Sprintf("arg%d", i)] = a
		}
		for i, fv := range cfn.FreeVars {
			cnames = append(cnames, fv.Name())
			cargs = append(cargs, e.fvVal(fv, cv.Clo.Bindings[i]))
		}
		for _, w := range ctr.With {
			e.assume(g, e.evalBool(w, env))
		}
		var cresT types.Type = cfn.Signature.Results()
		if cfn.Signature.Results().Len() == 1 {
			cresT = cfn.Signature.Results().At(0).Type()
		}
		applied := e.applyContract(fr, ins, cctr, cnames, cargs, cresT, st, g, false)
		env.vars["applied"] = applied
		env.st = st.clone()
	}
	// "before:" site hints: proved (then assumed) in the pre-state, before the callee's preconditions are checked
	if fr.ctr != nil && fr.ctr.SiteHints != nil {
		for key, hints := range fr.ctr.SiteHints {
			if !strings.HasPrefix(key, "before:") || !strings.HasSuffix(site, key[len("before:"):]) {
				continue
			}
			henv := e.envForFunc(fr, env.st, fr.entryState, nil)
			henv.block = ins.Block()
			for _, c := range hints {
				t := e.evalBool(c, henv)
				e.Out.AddObl(&Obligation{Name: fmt.Sprintf("%s/hint:%s:%s", FuncKey(fr.fn), key, c.Label), Func: FuncKey(fr.fn), Kind: "hint", Label: c.Label, Text: c.Text, Src: c.Src,
					Formula: Imp(g, t), Inputs: e.obsInputs(fr), Obs: e.lastObs})
				e.assume(g, t)
			}
		}
	}
	for _, c := range ctr.Requires {
		t := e.evalBool(c, env)
		e.Out.AddObl(&Obligation{Name: fmt.Sprintf("%s/call:%s/pre:%s", FuncKey(fr.fn), site, c.Label), Func: FuncKey(fr.fn), Kind: "pre", Label: c.Label, Text: c.Text, Src: c.Src,
			Formula: Imp(g, t), Inputs: e.obsInputs(fr), Obs: e.lastObs})
		// assert-then-assume
		e.assume(g, t)
	}
	// havoc the frame (the allocation top first: well-formedness of havocked heaps refers to it)
	post := st.clone()
	if !ctr.Flags["noalloc"] {
		// (the current top, not the one at entry: a closure applied by this call may already have allocated)
		old := e.top(post)
		nt := e.havoc(post, "$top", SInt)
		e.Out.Assert("(>= " + nt + " " + old + ")")
		e.recordWrite("$top", "")
	}
	for _, m := range ctr.Modifies {
		e.havocLoc(m, env, pre, post)
	}
	if ctr.Parfor != "" {
		e.applyParfor(fr, ins, ctr, env, pre, post, g, site)
	}
	// results
	var res Val
	if t, ok := resT.(*types.Tuple); !ok || t.Len() > 0 {
		res = e.freshTyped(fr.prefix+valueName(ins)+"$res", resT, post)
	}
	if !isGo {
		env2 := &Env{e: e, vars: env.vars, st: post, old: pre, fr: fr, result: &res, home: env.home}
		for _, c := range ctr.Ensures {
			e.assume(g, e.evalBool(c, env2))
		}
	}
	if ctr.Flags["txn"] && res.T != "" {
		// transactional extern: a non-nil result means nothing was committed to the abstract store
		errT := res.T
		if res.Tup != nil {
			errT = res.Tup[len(res.Tup)-1].T
		}
		if g, ok := e.P.Spec.Ghosts["db"]; ok {
			_, comps, _, _ := e.ghostComps(g)
			for _, c := range comps {
				cur := e.get(post, c.name, c.sort)
				old := e.get(pre, c.name, c.sort)
				if cur != old {
					e.set(post, c.name, c.sort, Ite(Eq(errT, "anynil"), cur, old))
				}
			}
		}
	}
	// call-site hints of the function under verification (proof decomposition: proved here, then assumed)
	if fr.ctr != nil && fr.ctr.SiteHints != nil {
		for key, hints := range fr.ctr.SiteHints {
			if strings.HasPrefix(key, "before:") || !strings.HasSuffix(site, key) {
				continue
			}
			henv := e.envForFunc(fr, post, fr.entryState, nil)
			henv.result = &res
			henv.block = ins.Block()
			for _, c := range hints {
				t := e.evalBool(c, henv)
				e.Out.AddObl(&Obligation{Name: fmt.Sprintf("%s/hint:%s:%s", FuncKey(fr.fn), key, c.Label), Func: FuncKey(fr.fn), Kind: "hint", Label: c.Label, Text: c.Text, Src: c.Src,
					Formula: Imp(g, t), Inputs: e.obsInputs(fr), Obs: e.lastObs})
				e.assume(g, t)
			}
		}
	}
	// commit: under the guard the post state holds, otherwise the pre state
	merged := e.mergeStates([]string{g, Not(g)}, []*State{post, pre})
	if g == "true" {
		merged = post
	}
	for k := range st.H {
		delete(st.H, k)
	}
	for k, v := range merged.H {
		st.H[k] = v
	}
	return res
}

// havocLoc havocs one location named by a modifies clause (evaluated in the pre state).
func (e *Exec) havocLoc(m Clause, env *Env, pre, post *State) {
	for _, loc := range e.evalLocs(m.E, env) {
		e.havocOne(m, loc, env, pre, post)
	}
}

func (e *Exec) havocOne(m Clause, loc location, env *Env, pre, post *State) {
	if loc.qv != "" || loc.lo != "" {
		e.havocQuantified(loc, post)
		return
	}
	switch loc.kind {
	case "ghost":
		for _, comp := range loc.comps {
			if loc.key == "" {
				cur := e.get(post, comp.name, comp.sort)
				nw := e.havoc(post, comp.name, comp.sort)
				if loc.mono {
					ks, _, _ := arrayParts(comp.sort)
					k := Sym(e.Out.FreshName("q$k"))
					e.Out.Assert("(forall ((" + k + " " + string(ks) + ")) (! (=> (select " + cur + " " + k + ") (select " + nw + " " + k + ")) :pattern ((select " + nw + " " + k + "))))")
				}
				e.recordWrite(comp.name, "")
			} else {
				_, vs, _ := arrayParts(comp.sort)
				cur := e.get(post, comp.name, comp.sort)
				nv := e.Out.Fresh(comp.name+"@k", vs)
				if loc.mono {
					e.Out.Assert("(=> (select " + cur + " " + loc.key + ") " + nv + ")")
				}
				e.set(post, comp.name, comp.sort, Sto(cur, loc.key, nv))
				e.recordWrite(comp.name, "")
			}
		}
	case "heap":
		cur := e.get(post, loc.heap, loc.hs)
		_, vs, _ := arrayParts(loc.hs)
		switch {
		case loc.whole:
			e.havoc(post, loc.heap, loc.hs)
			e.recordWrite(loc.heap, "")
		case loc.idx == "":
			e.set(post, loc.heap, loc.hs, Sto(cur, loc.ref, e.Out.Fresh(loc.heap+"@m", vs)))
			e.recordWrite(loc.heap, loc.ref)
		default:
			_, es, _ := arrayParts(vs)
			e.set(post, loc.heap, loc.hs, Sto(cur, loc.ref, Sto(Sel(cur, loc.ref), loc.idx, e.Out.Fresh(loc.heap+"@m", es))))
			e.recordWrite(loc.heap, loc.ref)
		}
	default:
		e.unsupported("modifies clause %q does not denote a location", m.Text)
	}
}

// havocQuantified havocs a range x[a:b] or an each(...) location: a fresh heap that agrees with the old one
// everywhere outside the location.
func (e *Exec) havocQuantified(loc location, post *State) {
	switch loc.kind {
	case "ghost":
		for _, comp := range loc.comps {
			ks, _, _ := arrayParts(comp.sort)
			cur := e.get(post, comp.name, comp.sort)
			nw := e.havoc(post, comp.name, comp.sort)
			k := Sym(e.Out.FreshName("q$k"))
			e.Out.Assert("(forall ((" + k + " " + string(ks) + ")) (! " + Imp(Not(loc.member(k, "")), Eq(Sel(nw, k), Sel(cur, k))) + " :pattern ((select " + nw + " " + k + "))))")
			e.recordWrite(comp.name, "")
		}
	case "heap":
		cur := e.get(post, loc.heap, loc.hs)
		_, vs, _ := arrayParts(loc.hs)
		_, _, twoLevel := arrayParts(vs)
		if loc.qv == "" && twoLevel {
			// a range of one row
			row := e.Out.Fresh(loc.heap+"@range", vs)
			j := Sym(e.Out.FreshName("q$j"))
			e.Out.Assert("(forall ((" + j + " Int)) (! " + Imp(Not(And("(<= "+loc.lo+" "+j+")", "(< "+j+" "+loc.hi+")")), Eq(Sel(row, j), Sel(Sel(cur, loc.ref), j))) + " :pattern ((select " + row + " " + j + "))))")
			e.set(post, loc.heap, loc.hs, Sto(cur, loc.ref, row))
			e.recordWrite(loc.heap, loc.ref)
			return
		}
		nw := e.havoc(post, loc.heap, loc.hs)
		r := Sym(e.Out.FreshName("q$r"))
		if twoLevel {
			ks2, _, _ := arrayParts(vs)
			i := Sym(e.Out.FreshName("q$i"))
			e.Out.Assert("(forall ((" + r + " Int) (" + i + " " + string(ks2) + ")) (! " + Imp(Not(loc.member(r, i)), Eq(Sel(Sel(nw, r), i), Sel(Sel(cur, r), i))) + " :pattern ((select (select " + nw + " " + r + ") " + i + "))))")
		} else {
			e.Out.Assert("(forall ((" + r + " Int)) (! " + Imp(Not(loc.member(r, "")), Eq(Sel(nw, r), Sel(cur, r))) + " :pattern ((select " + nw + " " + r + "))))")
		}
		e.recordWrite(loc.heap, "")
	}
}

func (e *Exec) doBuiltin(fr *Frame, ins ssa.Instruction, b *ssa.Builtin, c *ssa.CallCommon, args []Val, st *State, g string) Val {
	name := fr.prefix + valueName(ins)
	intT := types.Typ[types.Int]
	switch b.Name() {
	case "len":
		a := args[0]
		switch t := c.Args[0].Type().Underlying().(type) {
		case *types.Slice:
			return Val{T: e.Out.Define(name, SInt, ""+e.slen(a.T)+""), S: SInt, Ty: intT}
		case *types.Basic:
			return Val{T: e.Out.Define(name, SInt, "(str.len "+a.T+")"), S: SInt, Ty: intT}
		case *types.Array:
			return Val{T: IntLit(t.Len()), S: SInt, Ty: intT}
		case *types.Pointer:
			return Val{T: IntLit(t.Elem().Underlying().(*types.Array).Len()), S: SInt, Ty: intT}
		case *types.Map:
			d, _, ds, _ := e.mapHeaps(t)
			f := e.Out.DeclareFun("card$"+string(e.sortOf(t.Key())), []Sort{ArrSort(e.sortOf(t.Key()), SBool)}, SInt)
			r := e.Out.Define(name, SInt, Ite(Eq(a.T, "0"), "0", App(f, Sel(e.get(st, d, ds), a.T))))
			e.Out.Assert("(>= " + r + " 0)")
			return Val{T: r, S: SInt, Ty: intT}
		case *types.Chan:
			r := e.Out.Fresh(name, SInt)
			e.Out.Assert("(>= " + r + " 0)")
			return Val{T: r, S: SInt, Ty: intT}
		}
	case "cap":
		if _, ok := c.Args[0].Type().Underlying().(*types.Slice); ok {
			return Val{T: e.Out.Define(name, SInt, "(s_cap "+args[0].T+")"), S: SInt, Ty: intT}
		}
	case "copy":
		dst, src := args[0], args[1]
		var elem types.Type = types.Typ[types.Uint8]
		if sl, ok := c.Args[0].Type().Underlying().(*types.Slice); ok {
			elem = sl.Elem()
		}
		srcT := src.T
		if bt, ok := c.Args[1].Type().Underlying().(*types.Basic); ok && bt.Info()&types.IsString != 0 {
			// copy from string: contents opaque
			h, hs := e.elemHeap(elem)
			n := e.Out.Define(name, SInt, "(ite (< "+e.slen(dst.T)+" (str.len "+src.T+")) "+e.slen(dst.T)+" (str.len "+src.T+"))")
			heap := e.get(st, h, hs)
			row := e.Out.Fresh("copyrow", ArrSort(SInt, e.sortOf(elem)))
			q := e.Out.FreshName("i")
			drow := Sel(heap, ""+e.sbase(dst.T)+"")
			e.Out.Assert("(forall ((" + q + " Int)) (! (=> (not (and (<= "+e.soff(dst.T)+" " + q + ") (< " + q + " (+ "+e.soff(dst.T)+" " + n + ")))) (= (select " + row + " " + q + ") (select " + drow + " " + q + "))) :pattern ((select " + row + " " + q + "))))")
			e.set(st, h, hs, Ite(g, Sto(heap, ""+e.sbase(dst.T)+"", row), heap))
			e.recordWrite(h, ""+e.sbase(dst.T)+"")
			return Val{T: n, S: SInt, Ty: intT}
		}
		h, hs := e.elemHeap(elem)
		n := e.Out.Define(name, SInt, "(ite (< "+e.slen(dst.T)+" "+e.slen(srcT)+") "+e.slen(dst.T)+" "+e.slen(srcT)+")")
		heap := e.get(st, h, hs)
		row := e.Out.Fresh("copyrow", ArrSort(SInt, e.sortOf(elem)))
		q := e.Out.FreshName("i")
		drow := Sel(heap, ""+e.sbase(dst.T)+"")
		srow := Sel(heap, ""+e.sbase(srcT)+"")
		e.Out.Assert("(forall ((" + q + " Int)) (! (= (select " + row + " " + q + ") (ite (and (<= "+e.soff(dst.T)+" " + q + ") (< " + q + " (+ "+e.soff(dst.T)+" " + n + "))) (select " + srow + " (+ "+e.soff(srcT)+" (- " + q + " "+e.soff(dst.T)+"))) (select " + drow + " " + q + "))) :pattern ((select " + row + " " + q + "))))")
		e.set(st, h, hs, Ite(g, Sto(heap, ""+e.sbase(dst.T)+"", row), heap))
		e.recordWrite(h, ""+e.sbase(dst.T)+"")
		return Val{T: n, S: SInt, Ty: intT}
	case "append":
		// "before:append@n" site hints (proof decomposition at the point where a collection grows)
		site := e.siteName("append")
		if fr.ctr != nil && fr.ctr.SiteHints != nil {
			for key, hints := range fr.ctr.SiteHints {
				if !strings.HasPrefix(key, "before:") || site != key[len("before:"):] {
					continue
				}
				henv := e.envForFunc(fr, st, fr.entryState, nil)
				henv.block = ins.Block()
				for _, hc := range hints {
					t := e.evalBool(hc, henv)
					e.Out.AddObl(&Obligation{Name: fmt.Sprintf("%s/hint:%s:%s", FuncKey(fr.fn), key, hc.Label), Func: FuncKey(fr.fn), Kind: "hint", Label: hc.Label, Text: hc.Text, Src: hc.Src,
						Formula: Imp(g, t), Inputs: e.obsInputs(fr), Obs: e.lastObs})
					e.assume(g, t)
				}
			}
		}
		appSite := fmt.Sprintf("append@%d", e.siteCount["append"])
		res := e.doAppend(fr, ins, c, args, st, g)
		if fr.ctr != nil && fr.ctr.SiteHints != nil {
			if hints, ok := fr.ctr.SiteHints[appSite]; ok {
				henv := e.envForFunc(fr, st, fr.entryState, nil)
				henv.result = &res
				henv.block = ins.Block()
				for _, hc := range hints {
					t := e.evalBool(hc, henv)
					e.Out.AddObl(&Obligation{Name: fmt.Sprintf("%s/hint:%s:%s", FuncKey(fr.fn), appSite, hc.Label), Func: FuncKey(fr.fn), Kind: "hint", Label: hc.Label, Text: hc.Text, Src: hc.Src,
						Formula: Imp(g, t), Inputs: e.obsInputs(fr), Obs: e.lastObs})
					e.assume(g, t)
				}
			}
		}
		return res
	case "delete":
		m, k := args[0], args[1]
		mt := c.Args[0].Type().Underlying().(*types.Map)
		d, _, ds, _ := e.mapHeaps(mt)
		dh := e.get(st, d, ds)
		e.set(st, d, ds, Ite(And(g, Not(Eq(m.T, "0"))), Sto(dh, m.T, Sto(Sel(dh, m.T), e.scalar(k), "false")), dh))
		e.recordWrite(d, m.T)
		return Val{}
	case "close":
		return Val{}
	case "panic":
		return Val{}
	case "min", "max":
		op := "<"
		if b.Name() == "max" {
			op = ">"
		}
		t := args[0].T
		for _, a := range args[1:] {
			t = "(ite (" + op + " " + a.T + " " + t + ") " + a.T + " " + t + ")"
		}
		return Val{T: e.Out.Define(name, SInt, t), S: SInt, Ty: c.Args[0].Type()}
	case "print", "println":
		return Val{}
	}
	e.unsupported("builtin %s on %s", b.Name(), c.Args[0].Type())
	return Val{}
}

// doAppend models append(s, xs...) exactly: in place if capacity suffices, otherwise a fresh copy.
func (e *Exec) doAppend(fr *Frame, ins ssa.Instruction, c *ssa.CallCommon, args []Val, st *State, g string) Val {
	name := fr.prefix + valueName(ins)
	s, xs := args[0], args[1]
	sl := c.Args[0].Type().Underlying().(*types.Slice)
	elem := sl.Elem()
	h, hs := e.elemHeap(elem)
	heap := e.get(st, h, hs)
	es := e.sortOf(elem)
	var xlen string
	var xat func(i string) string
	if bt, ok := c.Args[1].Type().Underlying().(*types.Basic); ok && bt.Info()&types.IsString != 0 {
		xlen = "(str.len " + xs.T + ")"
		xat = func(i string) string { return "(str.to_code (str.at " + xs.T + " " + i + "))" }
	} else {
		xlen = ""+e.slen(xs.T)+""
		xat = func(i string) string { return Sel(Sel(heap, ""+e.sbase(xs.T)+""), elemIdx(e.soff(xs.T), i)) }
	}
	newLen := e.Out.Define(name+"$len", SInt, "(+ "+e.slen(s.T)+" "+xlen+")")
	fits := e.Out.Define(name+"$fits", SBool, "(<= "+newLen+" "+e.scap(s.T)+")")
	fresh := e.alloc(st)
	newCap := e.Out.Fresh(name+"$cap", SInt)
	e.Out.Assert("(>= " + newCap + " " + newLen + ")")
	base := e.Out.Define(name+"$base", SInt, Ite(fits, ""+e.sbase(s.T)+"", fresh))
	off := e.Out.Define(name+"$off", SInt, Ite(fits, ""+e.soff(s.T)+"", "0"))
	row := e.Out.Fresh("approw", ArrSort(SInt, es))
	q := e.Out.FreshName("i")
	oldRow := Sel(heap, ""+e.sbase(s.T)+"")
	// new row: old elements (at new offset), then xs, elsewhere unchanged (in place) / zero (fresh)
	inOld := "(and (<= " + off + " " + q + ") (< " + q + " (+ " + off + " "+e.slen(s.T)+")))"
	inNew := "(and (<= (+ " + off + " "+e.slen(s.T)+") " + q + ") (< " + q + " (+ " + off + " " + newLen + ")))"
	oldAt := Sel(oldRow, "(+ "+e.soff(s.T)+" (- "+q+" "+off+"))")
	newAt := xat("(- " + q + " (+ " + off + " "+e.slen(s.T)+"))")
	elseAt := Ite(fits, Sel(oldRow, q), e.zeroOf(elem))
	e.Out.Assert("(forall ((" + q + " Int)) (! (= (select " + row + " " + q + ") (ite " + inOld + " " + oldAt + " (ite " + inNew + " " + newAt + " " + elseAt + "))) :pattern ((select " + row + " " + q + "))))")
	// the same fact about the old elements in the index space of the two slices, triggered by either side: an existing
	// term x[j] of the old slice produces the corresponding term of the new one (witnesses of "exists k" survive append)
	if xlen == e.slen(xs.T) {
		j := e.Out.FreshName("j")
		oldIdx := Sel(oldRow, elemIdx(e.soff(s.T), j))
		newIdx := Sel(row, elemIdx(off, j))
		e.Out.Assert("(forall ((" + j + " Int)) (! (=> (and (<= 0 " + j + ") (< " + j + " " + e.slen(s.T) + ")) (= " + newIdx + " " + oldIdx + ")) :pattern (" + oldIdx + ") :pattern (" + newIdx + ")))")
		// ... and the appended elements, triggered by the source elements
		j2 := e.Out.FreshName("j")
		srcAt := Sel(Sel(heap, e.sbase(xs.T)), elemIdx(e.soff(xs.T), j2))
		dstAt := Sel(row, elemIdx(off, "(+ "+e.slen(s.T)+" "+j2+")"))
		e.Out.Assert("(forall ((" + j2 + " Int)) (! (=> (and (<= 0 " + j2 + ") (< " + j2 + " " + xlen + ")) (= " + dstAt + " " + srcAt + ")) :pattern (" + srcAt + ")))")
		if xlen == "1" {
			e.Out.Assert(Eq(Sel(row, elemIdx(off, e.slen(s.T))), Sel(Sel(heap, e.sbase(xs.T)), elemIdx(e.soff(xs.T), "0"))))
		}
	}
	e.set(st, h, hs, Ite(g, Sto(heap, base, row), heap))
	e.recordWrite(h, "")
	res := e.Out.Define(name, SSlice, "(mk_slice "+base+" "+off+" "+newLen+" "+Ite(fits, ""+e.scap(s.T)+"", newCap)+")")
	return Val{T: res, S: SSlice, Ty: c.Args[0].Type()}
}

// fvVal views the binding of a closure's free variable (a pointer to the captured variable) as the address of that
// variable, so that contracts can name the captured variable itself.
func (e *Exec) fvVal(fv *ssa.FreeVar, v Val) Val {
	if v.Addr != nil {
		return v
	}
	pt, ok := fv.Type().(*types.Pointer)
	if !ok {
		return v
	}
	if _, isStruct := pt.Elem().Underlying().(*types.Struct); isStruct {
		return v
	}
	return Val{Addr: e.ptrAddr(v, fv.Type()), Ty: fv.Type()}
}

// applyParfor is the disjoint-parallel rule for "parfor <closure param> <count>": the callee runs the worker closure
// once for each extent (offset, entries) of a partition of [0,count) (the partition facts are the callee's 'with'
// clauses over arg0/arg1, established where the callee spawns its workers). The worker's contract
// (worker i offset entries / modifies / ensures-each) is verified on the closure's body; here:
//   [parfor-disjoint]  the frames of two different extents do not overlap (so workers do not write the same place);
//   [parfor-pre]       the worker's preconditions hold for every extent, in every state other workers may have produced;
//   [parfor-stable]    each per-index postcondition, once established, is not disturbed by the other workers;
// then the frame of the whole range is havocked and the per-index postconditions are assumed for every index of
// [0,count). Workers reading what other workers write is not modelled (see DESIGN: race-freedom of reads).
func (e *Exec) applyParfor(fr *Frame, ins ssa.Instruction, ctr *Contract, env *Env, pre, post *State, g string, site string) {
	f := strings.Fields(ctr.Parfor)
	if len(f) != 2 {
		e.unsupported("%s: parfor <closure parameter> <count parameter>", ctr.Key)
	}
	cv, ok := env.vars[f[0]]
	if !ok || cv.Clo == nil {
		e.unsupported("%s: parfor parameter %q is not a statically known closure here", ctr.Key, f[0])
	}
	nv, ok := env.vars[f[1]]
	if !ok {
		e.unsupported("%s: parfor count %q", ctr.Key, f[1])
	}
	cfn, ok := cv.Clo.Fn.(*ssa.Function)
	if !ok {
		e.unsupported("%s: parfor of a builtin", ctr.Key)
	}
	cctr := e.P.Spec.Contracts[FuncKey(cfn)]
	if cctr == nil || len(cctr.Worker) != 3 {
		e.unsupported("worker closure %s (run by %s) has no 'worker' contract", FuncKey(cfn), ctr.Key)
	}
	e.P.Trusted["used contract: "+cctr.Key] = true
	iv, offName, entName := cctr.Worker[0], cctr.Worker[1], cctr.Worker[2]
	for _, c := range cctr.Each {
		if mentions(c.E, offName) || mentions(c.E, entName) {
			e.unsupported("%s: ensures-each %s mentions the extent (%s/%s)", cctr.Key, c.Label, offName, entName)
		}
	}
	var home *types.Package
	if pk := e.P.ByPath[cctr.Pkg]; pk != nil {
		home = pk.Types
	}
	intT := types.Typ[types.Int]
	base := map[string]Val{}
	for _, p := range cfn.Params {
		if p.Name() != offName && p.Name() != entName {
			base[p.Name()] = e.freshTyped(fr.prefix+valueName(ins)+"$wk$"+p.Name(), p.Type(), pre)
		}
	}
	for i, fv := range cfn.FreeVars {
		base[fv.Name()] = e.fvVal(fv, cv.Clo.Bindings[i])
	}
	mkEnv := func(o, c string, st, old *State) *Env {
		vars := map[string]Val{}
		for k, v := range base {
			vars[k] = v
		}
		vars[offName] = Val{T: o, S: SInt, Ty: intT}
		vars[entName] = Val{T: c, S: SInt, Ty: intT}
		return &Env{e: e, vars: vars, st: st, old: old, fr: nil, home: home}
	}
	// the partition facts of one extent
	extent := func(o, c string) string {
		wenv := &Env{e: e, vars: map[string]Val{}, st: pre, old: pre, fr: fr, home: env.home}
		for k, v := range env.vars {
			wenv.vars[k] = v
		}
		wenv.vars["arg0"] = Val{T: o, S: SInt, Ty: intT}
		wenv.vars["arg1"] = Val{T: c, S: SInt, Ty: intT}
		var fs []string
		for _, w := range ctr.With {
			fs = append(fs, e.evalBool(w, wenv))
		}
		if len(fs) == 0 {
			e.unsupported("%s: parfor needs 'with' clauses describing the extents", ctr.Key)
		}
		return And(fs...)
	}
	locsFor := func(o, c string, st *State) []location {
		var out []location
		lenv := mkEnv(o, c, st, st)
		for _, m := range cctr.Modifies {
			out = append(out, e.evalLocs(m.E, lenv)...)
		}
		return out
	}
	fresh := func(n string) string { return e.Out.Fresh(fr.prefix+valueName(ins)+"$"+n, SInt) }
	fk := FuncKey(fr.fn)
	name := func(kind, label string) string { return fmt.Sprintf("%s/call:%s/%s:%s", fk, site, kind, label) }
	// locations are evaluated in the pre state: the slices and keys that index them must not be in the frame themselves
	all := locsFor("0", nv.T, pre)

	// 1. disjointness of the frames of two extents
	o1, c1, o2, c2 := fresh("o1"), fresh("c1"), fresh("o2"), fresh("c2")
	l1s, l2s := locsFor(o1, c1, pre), locsFor(o2, c2, pre)
	var overlaps []string
	for _, a := range l1s {
		for _, b := range l2s {
			if a.kind != b.kind || (a.kind == "heap" && a.heap != b.heap) {
				continue
			}
			if a.kind == "ghost" && a.mono {
				// grow-only set: concurrent additions commute and nothing is ever removed
				continue
			}
			if a.kind == "ghost" {
				if len(a.comps) == 0 || len(b.comps) == 0 || a.comps[0].name != b.comps[0].name {
					continue
				}
				ks, _, _ := arrayParts(a.comps[0].sort)
				k := e.Out.Fresh("pf$k", ks)
				overlaps = append(overlaps, And(a.member(k, ""), b.member(k, "")))
				continue
			}
			r := e.Out.Fresh("pf$r", SInt)
			_, vs, _ := arrayParts(a.hs)
			if ks2, _, two := arrayParts(vs); two {
				i := e.Out.Fresh("pf$i", ks2)
				overlaps = append(overlaps, And(a.member(r, i), b.member(r, i)))
			} else {
				overlaps = append(overlaps, And(a.member(r, ""), b.member(r, "")))
			}
		}
	}
	hyp := And(g, extent(o1, c1), extent(o2, c2), "(<= (+ "+o1+" "+c1+") "+o2+")")
	e.Out.AddObl(&Obligation{Name: name("parfor-disjoint", "frames"), Func: fk, Kind: "parfor", Label: "disjoint",
		Text: "the frames of two different worker extents of " + cctr.Key + " do not overlap", Src: cctr.Src,
		Formula: Imp(hyp, Not(Or(overlaps...))), Inputs: e.obsInputs(fr)})

	// states other workers may have produced: the whole frame havocked, this worker's own part as given
	interfered := func(from *State, o, c string, own *State) (*State, string) {
		s := from.clone()
		nt := e.havoc(s, "$top", SInt)
		e.Out.Assert("(>= " + nt + " " + e.top(from) + ")")
		for _, l := range all {
			e.havocOne(Clause{}, l, nil, from, s)
		}
		var agree []string
		for _, l := range locsFor(o, c, pre) {
			if l.mono {
				continue // other workers may have added elements
			}
			agree = append(agree, e.agreeOn(l, s, own))
		}
		return s, And(agree...)
	}

	// 2. preconditions of the worker, for every extent
	o, c := fresh("o"), fresh("c")
	sOwn, agree := interfered(pre, o, c, pre)
	penv := mkEnv(o, c, sOwn, sOwn)
	for _, rq := range cctr.Requires {
		t := e.evalBool(rq, penv)
		e.Out.AddObl(&Obligation{Name: name("parfor-pre", rq.Label), Func: fk, Kind: "pre", Label: rq.Label, Text: rq.Text, Src: rq.Src,
			Formula: Imp(And(g, extent(o, c), agree), t), Inputs: e.obsInputs(fr), Obs: e.lastObs})
	}

	// 3. stability of the per-index postconditions
	i0 := fresh("i0")
	sA, _ := interfered(sOwn, o, c, sOwn)
	sB, agreeB := interfered(sA, o, c, sA)
	inExt := And("(<= "+o+" "+i0+")", "(< "+i0+" (+ "+o+" "+c+"))")
	for _, ec := range cctr.Each {
		envA := mkEnv(o, c, sA, sOwn).with(iv, Val{T: i0, S: SInt, Ty: intT})
		envB := mkEnv(o, c, sB, pre).with(iv, Val{T: i0, S: SInt, Ty: intT})
		ta := e.evalBool(ec, envA)
		tb := e.evalBool(ec, envB)
		e.Out.AddObl(&Obligation{Name: name("parfor-stable", ec.Label), Func: fk, Kind: "parfor", Label: ec.Label,
			Text: "per-index postcondition is about the worker's own part of the frame only: " + ec.Text, Src: ec.Src,
			Formula: Imp(And(g, extent(o, c), agree, agreeB, inExt, ta), tb), Inputs: e.obsInputs(fr)})
	}

	// 4. effect: the frame of the whole range is havocked; every index has been processed by exactly one worker
	if !ctr.Flags["noalloc"] {
		// (the caller already raised $top)
	}
	for _, l := range all {
		e.havocOne(Clause{}, l, nil, pre, post)
	}
	for _, ec := range cctr.Each {
		qenv := mkEnv("0", "0", post, pre)
		delete(qenv.vars, offName)
		delete(qenv.vars, entName)
		qenv.vars["parfor_n"] = nv
		q := ec
		q.E = EQuant{true, []QVar{{iv, "int"}}, EBinary{"==>", EBinary{"&&", EBinary{"<=", EInt{"0"}, EIdent{iv}}, EBinary{"<", EIdent{iv}, EIdent{"parfor_n"}}}, ec.E}}
		e.assume(g, e.evalBool(q, qenv))
	}
}

// agreeOn: the two states hold the same values at the location.
func (e *Exec) agreeOn(l location, a, b *State) string {
	switch l.kind {
	case "ghost":
		var fs []string
		for _, comp := range l.comps {
			x, y := e.get(a, comp.name, comp.sort), e.get(b, comp.name, comp.sort)
			if l.key == "" {
				fs = append(fs, Eq(x, y))
			} else {
				fs = append(fs, l.forall(Eq(Sel(x, l.key), Sel(y, l.key))))
			}
		}
		return And(fs...)
	case "heap":
		x, y := e.get(a, l.heap, l.hs), e.get(b, l.heap, l.hs)
		switch {
		case l.whole:
			return Eq(x, y)
		case l.idx != "":
			return l.forall(Eq(Sel(Sel(x, l.ref), l.idx), Sel(Sel(y, l.ref), l.idx)))
		case l.lo != "":
			j := Sym(e.Out.FreshName("q$j"))
			return l.forall("(forall ((" + j + " Int)) (! " + Imp(And("(<= "+l.lo+" "+j+")", "(< "+j+" "+l.hi+")"), Eq(Sel(Sel(x, l.ref), j), Sel(Sel(y, l.ref), j))) + " :pattern ((select (select " + x + " " + l.ref + ") " + j + "))))")
		default:
			return l.forall(Eq(Sel(x, l.ref), Sel(y, l.ref)))
		}
	}
	return "true"
}

// mentions reports whether the identifier occurs free in the expression.
func mentions(x Expr, name string) bool {
	switch x := x.(type) {
	case EIdent:
		return x.Name == name
	case EUnary:
		return mentions(x.X, name)
	case EBinary:
		return mentions(x.X, name) || mentions(x.Y, name)
	case ESel:
		return mentions(x.X, name)
	case EIndex:
		return mentions(x.X, name) || mentions(x.I, name)
	case ESlice:
		return mentions(x.X, name) || (x.Lo != nil && mentions(x.Lo, name)) || (x.Hi != nil && mentions(x.Hi, name))
	case EUpd:
		return mentions(x.X, name) || mentions(x.K, name) || mentions(x.V, name)
	case ECall:
		for _, a := range x.Args {
			if mentions(a, name) {
				return true
			}
		}
	case EOld:
		return mentions(x.X, name)
	case EQuant:
		for _, v := range x.Vars {
			if v.Name == name {
				return false
			}
		}
		return mentions(x.Body, name)
	case ELet:
		return mentions(x.Val, name) || (x.Name != name && mentions(x.Body, name))
	case EIf:
		return mentions(x.C, name) || mentions(x.A, name) || mentions(x.B, name)
	}
	return false
}

// calleeVarName names the variable a dynamic call goes through: a parameter, a captured variable, or a load of one.
func calleeVarName(v ssa.Value) string {
	switch x := v.(type) {
	case *ssa.Parameter:
		return x.Name()
	case *ssa.FreeVar:
		return x.Name()
	case *ssa.UnOp:
		if x.Op == token.MUL {
			return calleeVarName(x.X)
		}
	}
	return v.Name()
}
