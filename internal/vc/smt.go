// Package vc is the verification-condition generator ("govc") for the dirk
// contract proofs: symbolic execution of go/ssa functions into SMT-LIB2.
package vc

import (
	"fmt"
	"go/types"
	"math/big"
	"sort"
	"strings"
)

// Sort is an SMT-LIB sort, as text.
type Sort string

const (
	SInt   Sort = "Int"
	SBool  Sort = "Bool"
	SStr   Sort = "String"
	SSlice Sort = "Slice"
	SAny   Sort = "Any"
	SBytes Sort = "Bytes"
)

func ArrSort(k, v Sort) Sort { return Sort("(Array " + string(k) + " " + string(v) + ")") }

// arrayParts splits "(Array K V)" into K and V.
func arrayParts(s Sort) (Sort, Sort, bool) {
	str := string(s)
	if !strings.HasPrefix(str, "(Array ") {
		return "", "", false
	}
	body := str[len("(Array ") : len(str)-1]
	// split at top-level space
	depth := 0
	for i, c := range body {
		switch c {
		case '(':
			depth++
		case ')':
			depth--
		case ' ':
			if depth == 0 {
				return Sort(body[:i]), Sort(body[i+1:]), true
			}
		}
	}
	return "", "", false
}

// Prelude is emitted at the top of every script.
const Prelude = `(set-option :produce-models true)
(set-logic ALL)
(declare-datatypes ((Slice 0)) (((mk_slice (s_base Int) (s_off Int) (s_len Int) (s_cap Int)))))
(declare-datatypes ((Bytes 0)) (((mkb (blen Int) (barr (Array Int Int))))))
(declare-datatypes ((Any 0)) (((anynil) (any_i (a_tag Int) (a_i Int)) (any_s (a_stag Int) (a_s String)) (any_b (a_btag Int) (a_b Bool)) (any_sl (a_sltag Int) (a_sl Slice)) (any_arr (a_atag Int) (a_arr (Array Int Int))))))
(define-fun typeof ((x Any)) Int (ite ((_ is anynil) x) 0 (ite ((_ is any_i) x) (a_tag x) (ite ((_ is any_s) x) (a_stag x) (ite ((_ is any_b) x) (a_btag x) (ite ((_ is any_sl) x) (a_sltag x) (a_atag x)))))))
(define-fun nil_slice () Slice (mk_slice 0 0 0 0))
(define-fun zarr () (Array Int Int) ((as const (Array Int Int)) 0))
(define-fun bnormdef ((b Bytes)) Bool (and (>= (blen b) 0) (forall ((i Int)) (! (=> (or (< i 0) (>= i (blen b))) (= (select (barr b) i) 0)) :pattern ((select (barr b) i))))))
(define-fun bapp ((b Bytes) (x Int)) Bytes (mkb (+ (blen b) 1) (store (barr b) (blen b) x)))
(define-fun arrnorm ((a (Array Int Int)) (n Int)) Bool (forall ((i Int)) (! (=> (or (< i 0) (>= i n)) (= (select a i) 0)) :pattern ((select a i)))))
(declare-fun errstr (Any) String)
(declare-fun key48 ((Array Int Int) Int Int) (Array Int Int))
(assert (forall ((r (Array Int Int)) (o Int) (n Int) (i Int)) (! (= (select (key48 r o n) i) (ite (and (<= 0 i) (< i 48) (< i n)) (select r (+ o i)) 0)) :pattern ((select (key48 r o n) i)))))
(declare-fun take32 ((Array Int Int) Int Int) (Array Int Int))
(assert (forall ((r (Array Int Int)) (o Int) (n Int) (i Int)) (! (= (select (take32 r o n) i) (ite (and (<= 0 i) (< i 32) (< i n)) (select r (+ o i)) 0)) :pattern ((select (take32 r o n) i)))))
(declare-fun sub (Int Int) Int)
(declare-fun subf (Int) Int)
(declare-fun subr (Int) Int)
(declare-fun owner (Int) Int)
(assert (forall ((r Int)) (! (=> (>= r (- 1000)) (= (owner r) r)) :pattern ((owner r)))))
(declare-fun idx (Int Int) Int)
(assert (forall ((o Int) (i Int)) (! (= (idx o i) (+ o i)) :pattern ((idx o i)))))
(declare-fun snapb ((Array Int Int) Int Int) Bytes)
(assert (forall ((r (Array Int Int)) (o Int) (n Int)) (! (and (= (blen (snapb r o n)) n) (= (select (barr (snapb r o n)) n) 0)) :pattern ((snapb r o n)))))
(assert (forall ((r (Array Int Int)) (o Int) (n Int) (i Int)) (! (= (select (barr (snapb r o n)) i) (ite (and (<= 0 i) (< i n)) (select r (+ o i)) 0)) :pattern ((select (barr (snapb r o n)) i)))))
(assert (forall ((r1 (Array Int Int)) (o1 Int) (n1 Int) (r2 (Array Int Int)) (o2 Int) (n2 Int)) (! (=> (= (snapb r1 o1 n1) (snapb r2 o2 n2)) (= (key48 r1 o1 n1) (key48 r2 o2 n2))) :pattern ((key48 r1 o1 n1) (key48 r2 o2 n2)))))
(assert (forall ((r (Array Int Int)) (o Int) (n Int)) (! (= (key48 r o n) (key48 (barr (snapb r o n)) 0 n)) :pattern ((key48 r o n) (snapb r o n)))))
`

func And(xs ...string) string {
	var ys []string
	for _, x := range xs {
		if x == "true" || x == "" {
			continue
		}
		if x == "false" {
			return "false"
		}
		ys = append(ys, x)
	}
	switch len(ys) {
	case 0:
		return "true"
	case 1:
		return ys[0]
	}
	return "(and " + strings.Join(ys, " ") + ")"
}

func Or(xs ...string) string {
	var ys []string
	for _, x := range xs {
		if x == "false" || x == "" {
			continue
		}
		if x == "true" {
			return "true"
		}
		ys = append(ys, x)
	}
	switch len(ys) {
	case 0:
		return "false"
	case 1:
		return ys[0]
	}
	return "(or " + strings.Join(ys, " ") + ")"
}

func Not(x string) string {
	switch x {
	case "true":
		return "false"
	case "false":
		return "true"
	}
	if strings.HasPrefix(x, "(not ") && balancedPrefix(x[5:len(x)-1]) {
		return x[5 : len(x)-1]
	}
	return "(not " + x + ")"
}

func balancedPrefix(s string) bool {
	d := 0
	for i, c := range s {
		switch c {
		case '(':
			d++
		case ')':
			d--
			if d < 0 {
				return false
			}
			if d == 0 && i != len(s)-1 {
				return false
			}
		case ' ':
			if d == 0 {
				return false
			}
		}
	}
	return d == 0
}

func Imp(a, b string) string {
	if a == "true" {
		return b
	}
	if a == "false" || b == "true" {
		return "true"
	}
	return "(=> " + a + " " + b + ")"
}

func Ite(c, a, b string) string {
	if c == "true" {
		return a
	}
	if c == "false" {
		return b
	}
	if a == b {
		return a
	}
	return "(ite " + c + " " + a + " " + b + ")"
}

func Eq(a, b string) string {
	if a == b {
		return "true"
	}
	return "(= " + a + " " + b + ")"
}

func App(f string, args ...string) string {
	if len(args) == 0 {
		return f
	}
	return "(" + f + " " + strings.Join(args, " ") + ")"
}

func Sel(a, i string) string      { return "(select " + a + " " + i + ")" }
func Sto(a, i, v string) string   { return "(store " + a + " " + i + " " + v + ")" }
func IntLit(n int64) string       { return bigLit(big.NewInt(n)) }
func bigLit(n *big.Int) string {
	if n.Sign() < 0 {
		return "(- " + new(big.Int).Neg(n).String() + ")"
	}
	return n.String()
}

func StrLit(s string) string {
	var b strings.Builder
	b.WriteByte('"')
	for _, r := range s {
		switch {
		case r == '"':
			b.WriteString(`""`)
		case r < 32 || r > 126 || r == '\\':
			fmt.Fprintf(&b, `\u{%x}`, r)
		default:
			b.WriteRune(r)
		}
	}
	b.WriteByte('"')
	return b.String()
}

// Sym quotes a symbol for SMT-LIB.
func Sym(s string) string {
	s = strings.NewReplacer("|", "!", "\\", "!").Replace(s)
	simple := true
	for _, c := range s {
		if !(c >= 'a' && c <= 'z' || c >= 'A' && c <= 'Z' || c >= '0' && c <= '9' || strings.ContainsRune("_.$!@~", c)) {
			simple = false
			break
		}
	}
	if simple && len(s) > 0 && !(s[0] >= '0' && s[0] <= '9') {
		return s
	}
	return "|" + s + "|"
}

// ---- integer types ----

type intInfo struct {
	bits   int
	signed bool
}

func intInfoOf(t types.Type) (intInfo, bool) {
	b, ok := t.Underlying().(*types.Basic)
	if !ok {
		return intInfo{}, false
	}
	switch b.Kind() {
	case types.Int, types.Int64:
		return intInfo{64, true}, true
	case types.Int32:
		return intInfo{32, true}, true
	case types.Int16:
		return intInfo{16, true}, true
	case types.Int8:
		return intInfo{8, true}, true
	case types.Uint, types.Uint64, types.Uintptr:
		return intInfo{64, false}, true
	case types.Uint32:
		return intInfo{32, false}, true
	case types.Uint16:
		return intInfo{16, false}, true
	case types.Uint8:
		return intInfo{8, false}, true
	case types.UntypedInt, types.UntypedRune:
		return intInfo{64, true}, true
	}
	return intInfo{}, false
}

func (ii intInfo) min() *big.Int {
	if !ii.signed {
		return big.NewInt(0)
	}
	return new(big.Int).Neg(new(big.Int).Lsh(big.NewInt(1), uint(ii.bits-1)))
}

func (ii intInfo) max() *big.Int {
	if ii.signed {
		return new(big.Int).Sub(new(big.Int).Lsh(big.NewInt(1), uint(ii.bits-1)), big.NewInt(1))
	}
	return new(big.Int).Sub(new(big.Int).Lsh(big.NewInt(1), uint(ii.bits)), big.NewInt(1))
}

func (ii intInfo) modulus() *big.Int { return new(big.Int).Lsh(big.NewInt(1), uint(ii.bits)) }

// inRange returns the range predicate for term x.
func (ii intInfo) inRange(x string) string {
	return "(and (<= " + bigLit(ii.min()) + " " + x + ") (<= " + x + " " + bigLit(ii.max()) + "))"
}

// wrapOnce wraps x into the type assuming x is within one modulus of the range
// (true for + and - of in-range operands, negation and conversions between 64-bit types).
func (ii intInfo) wrapOnce(x string) string {
	m := bigLit(ii.modulus())
	return "(ite (> " + x + " " + bigLit(ii.max()) + ") (- " + x + " " + m + ") (ite (< " + x + " " + bigLit(ii.min()) + ") (+ " + x + " " + m + ") " + x + "))"
}

// wrapMod wraps any integer into the type.
func (ii intInfo) wrapMod(x string) string {
	m := bigLit(ii.modulus())
	if !ii.signed {
		return "(mod " + x + " " + m + ")"
	}
	// signed: ((x - min) mod m) + min
	mn := bigLit(ii.min())
	return "(+ (mod (- " + x + " " + mn + ") " + m + ") " + mn + ")"
}

func sortedKeys[V any](m map[string]V) []string {
	ks := make([]string, 0, len(m))
	for k := range m {
		ks = append(ks, k)
	}
	sort.Strings(ks)
	return ks
}
