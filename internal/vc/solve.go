package vc

import (
	"runtime"
	"context"
	"fmt"
	"os"
	"os/exec"
	"path/filepath"
	"strings"
	"sync"
	"time"
)

type SolverCfg struct {
	Name string
	Args func(timeoutS int, file string) []string
}

var Solvers = []SolverCfg{
	{"z3-new", func(t int, f string) []string { return []string{"z3-new", "-smt2", fmt.Sprintf("-T:%d", t), f} }},
	{"z3", func(t int, f string) []string { return []string{"z3", "-smt2", fmt.Sprintf("-T:%d", t), f} }},
	{"cvc5", func(t int, f string) []string {
		return []string{"cvc5", "--lang", "smt2", fmt.Sprintf("--tlimit=%d", t*1000), f}
	}},
}

// ScriptFor renders the SMT-LIB script of one obligation.
func ScriptFor(s *Script, o *Obligation, solver string) string {
	var b strings.Builder
	b.WriteString("; obligation: " + o.Name + "\n")
	b.WriteString(Prelude)
	var keep map[string]bool
	if f, ok := s.Focus[o.Label]; ok && o.Expect == "unsat" {
		keep = map[string]bool{}
		for _, l := range f {
			keep[l] = true
		}
	}
	for i, l := range s.Lines[:o.CtxLen] {
		if i >= o.SkipFrom && i < o.SkipTo && !s.Global[i] && strings.HasPrefix(l, "(assert") {
			continue // a fact about code that runs after the program point of this obligation
		}
		if keep != nil {
			if tag, tagged := s.Tags[i]; tagged && !keep[tag] {
				continue // an invariant this obligation was declared not to need
			}
		}
		b.WriteString(l)
		b.WriteByte('\n')
	}
	b.WriteString("(assert (not " + dedupGoal(o.Formula) + "))\n(check-sat)\n")
	if len(o.Inputs) > 0 && o.Expect == "unsat" {
		b.WriteString("(get-value (" + strings.Join(o.Inputs, " ") + "))\n")
	}
	return b.String()
}

type solveResult struct {
	verdict string // sat unsat unknown
	out     string
	solver  string
	secs    float64
}

// solverSlots bounds the number of solver processes running at once to the number of cores, however many
// units and obligations are in flight: an oversubscribed machine turns CPU seconds into wall-clock timeouts.
var solverSlots = make(chan struct{}, runtime.NumCPU())

func runSolver(ctx context.Context, cfg SolverCfg, file string, timeoutS int) solveResult {
	select {
	case solverSlots <- struct{}{}:
	case <-ctx.Done():
		return solveResult{"unknown", "cancelled", cfg.Name, 0}
	}
	defer func() { <-solverSlots }()
	args := cfg.Args(timeoutS, file)
	cctx, cancel := context.WithTimeout(ctx, time.Duration(timeoutS+2)*time.Second)
	defer cancel()
	start := time.Now()
	cmd := exec.CommandContext(cctx, args[0], args[1:]...)
	out, _ := cmd.CombinedOutput()
	secs := time.Since(start).Seconds()
	text := string(out)
	v := "unknown"
	for _, line := range strings.Split(text, "\n") {
		line = strings.TrimSpace(line)
		if strings.HasPrefix(line, "(error ") {
			// an error before the verdict: a malformed script must never count as a proof
			return solveResult{"error", text, cfg.Name, secs}
		}
		if line == "sat" || line == "unsat" {
			v = line
			break
		}
		if line == "unknown" || line == "timeout" {
			break
		}
	}
	return solveResult{v, text, cfg.Name, secs}
}

// Solve discharges all obligations of the script, racing the installed solvers.
func Solve(s *Script, workDir string, timeoutS int, workers int, crossCheck bool) {
	os.MkdirAll(workDir, 0o755)
	var wg sync.WaitGroup
	sem := make(chan struct{}, workers)
	for i, o := range s.Obls {
		wg.Add(1)
		sem <- struct{}{}
		go func(i int, o *Obligation) {
			defer wg.Done()
			defer func() { <-sem }()
			solveOne(s, o, filepath.Join(workDir, fmt.Sprintf("o%04d.smt2", i)), timeoutS, crossCheck)
		}(i, o)
	}
	wg.Wait()
}

func solveOne(s *Script, o *Obligation, file string, timeoutS int, crossCheck bool) {
	script := ScriptFor(s, o, "")
	if err := os.WriteFile(file, []byte(script), 0o644); err != nil {
		o.Status, o.Detail = "unknown", err.Error()
		return
	}
	ctx := context.Background()
	if o.Expect == "sat" {
		// vacuity guards: only a refutation (unsat) is a failure; do not spend the full budget on them
		r := runSolver(ctx, Solvers[0], file, 2)
		o.Solver, o.TimeS, o.Detail = r.solver, r.secs, fmt.Sprintf("%s: %s (%.2fs)", r.solver, r.verdict, r.secs)
		if r.verdict == "unsat" {
			o.Status = "failed"
		} else if r.verdict == "error" {
			o.Status = "error"
			o.Model = r.out
		} else {
			o.Status = "discharged"
		}
		return
	}
	// stage 1: z3-new alone for a short while
	first := timeoutS
	if first > 3 {
		first = 3
	}
	r := runSolver(ctx, Solvers[0], file, first)
	results := []solveResult{r}
	if r.verdict == "error" {
		o.Solver, o.Status, o.Model, o.Detail = r.solver, "error", r.out, "solver reported an error in the script"
		return
	}
	if r.verdict == "unknown" {
		// stage 2: race all
		cctx, cancel := context.WithCancel(ctx)
		ch := make(chan solveResult, len(Solvers))
		for _, cfg := range Solvers {
			go func(cfg SolverCfg) { ch <- runSolver(cctx, cfg, file, timeoutS) }(cfg)
		}
		for range Solvers {
			rr := <-ch
			results = append(results, rr)
			if rr.verdict == "error" {
				// a solver that cannot parse the script (e.g. cvc5 and arrays indexed by arrays) does not decide
				continue
			}
			if rr.verdict != "unknown" {
				r = rr
				break
			}
		}
		cancel()
		if r.verdict == "unknown" {
			// stage 3: a time-out under machine load is not a refutation; race once more with three times the budget
			// before the obligation is reported as undischarged (a longer budget can only turn 'unknown' into a verdict)
			cctx2, cancel2 := context.WithCancel(ctx)
			ch2 := make(chan solveResult, len(Solvers))
			for _, cfg := range Solvers {
				go func(cfg SolverCfg) { ch2 <- runSolver(cctx2, cfg, file, 3*timeoutS) }(cfg)
			}
			for range Solvers {
				rr := <-ch2
				results = append(results, rr)
				if rr.verdict == "error" {
					continue
				}
				if rr.verdict != "unknown" {
					r = rr
					break
				}
			}
			cancel2()
		}
	}
	o.Solver, o.TimeS = r.solver, 0
	for _, x := range results {
		o.TimeS += x.secs
	}
	var detail []string
	for _, x := range results {
		detail = append(detail, fmt.Sprintf("%s: %s (%.2fs)", x.solver, x.verdict, x.secs))
	}
	o.Detail = strings.Join(detail, "; ")
	switch o.Expect {
	case "unsat":
		switch r.verdict {
		case "unsat":
			o.Status = "discharged"
		case "sat":
			o.Status = "failed"
			o.Model = r.out
		case "error":
			o.Status = "error"
			o.Model = r.out
		default:
			o.Status = "unknown"
			// no model: search for a candidate input in the context without its quantified facts
			// (weaker context => possibly spurious; it only counts once the replay confirms it on the real code)
			relaxed := relaxedScript(s, o)
			rf := file + ".relaxed.smt2"
			if os.WriteFile(rf, []byte(relaxed), 0o644) == nil {
				rr := runSolver(ctx, Solvers[0], rf, 5)
				o.Detail += fmt.Sprintf("; relaxed(z3-new): %s (%.2fs)", rr.verdict, rr.secs)
				if rr.verdict == "sat" {
					o.Model = rr.out
					o.Relaxed = true
				}
			}
		}
	case "sat":
		// cover / canary: must not be refutable
		if r.verdict == "unsat" {
			o.Status = "failed"
		} else {
			o.Status = "discharged"
		}
	}
}

// CrossCheck re-runs every discharged obligation on the solvers that did not decide it (thorough tier):
// none may answer sat; agreement counts are recorded.
func CrossCheck(s *Script, workDir string, timeoutS int, workers int) {
	os.MkdirAll(workDir, 0o755)
	var wg sync.WaitGroup
	sem := make(chan struct{}, workers)
	for i, o := range s.Obls {
		if o.Status != "discharged" || o.Expect != "unsat" {
			continue
		}
		wg.Add(1)
		sem <- struct{}{}
		go func(i int, o *Obligation) {
			defer wg.Done()
			defer func() { <-sem }()
			file := filepath.Join(workDir, fmt.Sprintf("x%04d.smt2", i))
			os.WriteFile(file, []byte(ScriptFor(s, o, "")), 0o644)
			agree := 1
			var parts []string
			for _, cfg := range Solvers {
				if cfg.Name == o.Solver {
					continue
				}
				r := runSolver(context.Background(), cfg, file, timeoutS)
				parts = append(parts, cfg.Name+"="+r.verdict)
				if r.verdict == "unsat" {
					agree++
				}
				if r.verdict == "sat" {
					parts = append(parts, "sat!")
				}
			}
			o.Cross = fmt.Sprintf("agree=%d", agree)
			for _, p := range parts {
				if p == "sat!" {
					o.Cross += " sat!"
				}
			}
		}(i, o)
	}
	wg.Wait()
}

func relaxedScript(s *Script, o *Obligation) string {
	var b strings.Builder
	b.WriteString(Prelude)
	for i, l := range s.Lines[:o.CtxLen] {
		if i >= o.SkipFrom && i < o.SkipTo && !s.Global[i] && strings.HasPrefix(l, "(assert") {
			continue
		}
		if strings.HasPrefix(l, "(assert") && (strings.Contains(l, "(forall ") || strings.Contains(l, "(exists ")) {
			continue
		}
		b.WriteString(l)
		b.WriteByte('\n')
	}
	b.WriteString("(assert (not " + dedupGoal(o.Formula) + "))\n(check-sat)\n")
	if len(o.Inputs) > 0 {
		b.WriteString("(get-value (" + strings.Join(o.Inputs, " ") + "))\n")
	}
	return b.String()
}

// PostProcess reconciles the per-return reachability guards with the negation canaries: on a return path whose
// guard is refutable (dead path) a provable negation is expected and not a sign of an inconsistent context.
// If every return path of a function is dead the function's contract is vacuous: that stays a failure.
func PostProcess(s *Script) {
	dead := map[string]bool{} // suffix -> dead
	live := 0
	total := 0
	for _, o := range s.Obls {
		if o.Kind == "reach" {
			total++
			if o.Status == "failed" {
				sfx := ""
				if i := strings.LastIndex(o.Name, "@r"); i > 0 {
					sfx = o.Name[i:]
				}
				dead[sfx] = true
			} else {
				live++
			}
		}
	}
	for _, o := range s.Obls {
		sfx := ""
		if i := strings.LastIndex(o.Name, "@r"); i > 0 {
			sfx = o.Name[i:]
		}
		switch {
		case o.Kind == "reach" && o.Status == "failed":
			if live > 0 {
				o.Status = "discharged"
				o.Detail += "; dead return path (unreachable under the contracts) — allowed because another return path is live"
			} else {
				o.Detail += "; every return path is unreachable: the contract is vacuous"
			}
		case o.Kind == "canary" && o.Status == "failed" && dead[sfx] && live > 0:
			o.Status = "discharged"
			o.Detail += "; on a dead return path"
		}
	}
	_ = total
}

// CheckPreludeLemmas runs the stand-alone proof scripts of the lemmas that the prelude states as axioms
// (specs/prelude_lemmas/*.smt2): each must be unsat on at least one solver and sat on none.
func CheckPreludeLemmas(dir string, timeoutS int) *Script {
	out := NewScript()
	files, _ := filepath.Glob(filepath.Join(dir, "*.smt2"))
	for _, f := range files {
		o := &Obligation{Name: "prelude-lemma:" + strings.TrimSuffix(filepath.Base(f), ".smt2"), Func: "prelude", Kind: "prelude-lemma", Expect: "unsat",
			Text: "lemma stated as an axiom in the SMT prelude, proved stand-alone from the defining axioms (" + f + ")"}
		o.Status = "unknown"
		var detail []string
		for _, cfg := range Solvers {
			r := runSolver(context.Background(), cfg, f, timeoutS)
			detail = append(detail, fmt.Sprintf("%s: %s (%.2fs)", r.solver, r.verdict, r.secs))
			o.TimeS += r.secs
			if r.verdict == "sat" {
				o.Status = "failed"
				o.Model = r.out
				break
			}
			if r.verdict == "unsat" && o.Status != "discharged" {
				o.Status, o.Solver = "discharged", r.solver
			}
		}
		o.Detail = strings.Join(detail, "; ")
		out.Obls = append(out.Obls, o)
	}
	return out
}
