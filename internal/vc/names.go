package vc

import (
	"fmt"
	"go/ast"
	"go/constant"
	"go/types"
	"strings"

	"golang.org/x/tools/go/ssa"
)

// buildNames collects source-level names of locals (DebugRef, Alloc and Phi comments).
func (fr *Frame) buildNames() {
	fr.names = map[string][]nameCand{}
	for _, b := range fr.fn.Blocks {
		for _, ins := range b.Instrs {
			switch x := ins.(type) {
			case *ssa.DebugRef:
				if id, ok := x.Expr.(*ast.Ident); ok {
					// only local variables and parameters (not the field name of a selector expression)
					if v, isVar := x.Object().(*types.Var); isVar && !v.IsField() {
						fr.names[id.Name] = append(fr.names[id.Name], nameCand{x.X, x.IsAddr, b})
					}
				}
			case *ssa.Alloc:
				if x.Comment != "" && x.Comment != "complit" && x.Comment != "varargs" && !strings.Contains(x.Comment, ".") {
					fr.names[x.Comment] = append(fr.names[x.Comment], nameCand{x, true, b})
				}
			case *ssa.Phi:
				if x.Comment != "" && !strings.HasPrefix(x.Comment, "range") {
					fr.names[x.Comment] = append(fr.names[x.Comment], nameCand{x, false, b})
				}
			}
		}
	}
}

// lookupName resolves a source-level local name at a block: the candidate whose defining block dominates
// the block and is deepest in the dominator tree.
func (fr *Frame) lookupName(e *Exec, name string, at *ssa.BasicBlock) (Val, bool) {
	for i, p := range fr.fn.Params {
		if p.Name() == name && i < len(fr.args) {
			return fr.vals[p], true
		}
	}
	for _, fv := range fr.fn.FreeVars {
		if fv.Name() == name {
			v := fr.vals[fv]
			// free variables are pointers to the captured variable
			if v.Addr == nil {
				pt := fv.Type().(*types.Pointer).Elem()
				if _, isStruct := pt.Underlying().(*types.Struct); !isStruct {
					a := e.ptrAddr(v, fv.Type())
					return Val{Addr: a, Ty: fv.Type()}, true
				}
			}
			return v, true
		}
	}
	cands := fr.names[name]
	var best *nameCand
	for i := range cands {
		c := &cands[i]
		if _, defined := fr.vals[c.v]; !defined {
			if _, isConst := c.v.(*ssa.Const); !isConst {
				continue
			}
		}
		if at != nil && !c.block.Dominates(at) {
			continue
		}
		if best == nil || best.block.Dominates(c.block) {
			best = c
		}
	}
	if best == nil {
		return Val{}, false
	}
	v := e.val(fr, best.v)
	return v, true
}

// envForFunc builds the environment for the function's own contract.
func (e *Exec) envForFunc(fr *Frame, st, old *State, result *Val) *Env {
	env := &Env{e: e, vars: map[string]Val{}, st: st, old: old, fr: fr, result: result}
	names := []string{}
	if fr.ctr != nil && len(fr.ctr.Params) > 0 {
		names = fr.ctr.Params
	} else {
		for _, p := range fr.fn.Params {
			names = append(names, p.Name())
		}
	}
	for i, n := range names {
		if i < len(fr.args) {
			env.vars[n] = fr.args[i]
		}
	}
	// named results
	if result != nil {
		res := fr.fn.Signature.Results()
		for i := 0; i < res.Len(); i++ {
			n := res.At(i).Name()
			if n == "" || n == "_" {
				continue
			}
			if res.Len() == 1 {
				env.vars[n] = *result
			} else if i < len(result.Tup) {
				env.vars[n] = result.Tup[i]
			}
		}
	}
	return env
}

// envForLoop builds the environment for the invariants of the loop with header h.
// "_i" is the raw range-index phi, "_n" = _i+1 is the number of completed iterations.
func (e *Exec) envForLoop(fr *Frame, h *ssa.BasicBlock, st *State) *Env {
	env := e.envForFunc(fr, st, fr.entryState, nil)
	env.block = h
	// indices of enclosing loops: _i<k>, _n<k> for the loop with ordinal k
	for hd, ord := range fr.loopOrd {
		if hd == h || !hd.Dominates(h) || !naturalLoop(hd)[h] {
			continue
		}
		for _, ins := range hd.Instrs {
			phi, ok := ins.(*ssa.Phi)
			if !ok {
				break
			}
			if v, have := fr.vals[phi]; have && phi.Comment == "rangeindex" {
				k := ord
				if fr.ctrOrd != nil {
					if c, ok := fr.ctrOrd[ord]; ok {
						k = c // the number the contract uses for this loop
					}
				}
				env.vars[fmt.Sprintf("_i%d", k)] = v
				env.vars[fmt.Sprintf("_n%d", k)] = Val{T: "(+ " + v.T + " 1)", S: SInt}
			}
		}
	}
	for _, ins := range h.Instrs {
		phi, ok := ins.(*ssa.Phi)
		if !ok {
			break
		}
		v := fr.vals[phi]
		if phi.Comment == "rangeindex" {
			env.vars["_i"] = v
			env.vars["_n"] = Val{T: "(+ " + v.T + " 1)", S: SInt}
		} else if phi.Comment == "rangeint.iter" {
			// range-over-int loops are do-while shaped: the header phi is the current index = completed iterations
			env.vars["_i"] = v
			env.vars["_n"] = v
		} else if phi.Comment != "" {
			env.vars[phi.Comment] = v
		}
	}
	return env
}

// frameObligations: every location allocated at entry and not listed in 'modifies' keeps its value.
type frameAllowed struct {
	whole bool
	refs  []location
}

// frameAllow evaluates the function's modifies clauses (in the entry state) into what may change, per heap.
func (e *Exec) frameAllow(fr *Frame, envEntry *Env) map[string]*frameAllowed {
	if fr.allow != nil {
		return fr.allow
	}
	ctr := fr.ctr
	allow := map[string]*frameAllowed{}
	var locs []location
	for _, m := range ctr.Modifies {
		locs = append(locs, e.evalLocs(m.E, envEntry)...)
	}
	for _, loc := range locs {
		switch loc.kind {
		case "ghost":
			for _, c := range loc.comps {
				a := allow[c.name]
				if a == nil {
					a = &frameAllowed{}
					allow[c.name] = a
				}
				if loc.key == "" {
					a.whole = true
				} else {
					kl := loc
					kl.comps = nil
					a.refs = append(a.refs, kl)
				}
			}
		case "heap":
			a := allow[loc.heap]
			if a == nil {
				a = &frameAllowed{}
				allow[loc.heap] = a
			}
			if loc.whole {
				a.whole = true
			} else {
				a.refs = append(a.refs, loc)
			}
		}
	}
	fr.allow = allow
	return allow
}

// frameQuantified is the frame condition of one heap as a closed formula: everything of the heap that existed at
// function entry and is not listed in 'modifies' has its entry value in the state given (a monotone ghost set has
// only grown). Used as an automatic loop invariant: assumed at the loop head, proved at loop entry and at every back edge.
func (e *Exec) frameQuantified(fr *Frame, name string, cur string) string {
	if name == "$top" || strings.HasPrefix(name, "$visited$") || strings.HasPrefix(name, "$defer$") || strings.HasPrefix(name, "$calls$") {
		return "true"
	}
	srt := e.heapSorts[name]
	entryV := e.get(e.entry, name, srt)
	if cur == entryV {
		return "true"
	}
	envEntry := e.envForFunc(fr, e.entry, e.entry, nil)
	allow := e.frameAllow(fr, envEntry)
	var parts []string
	if strings.HasPrefix(name, "$g$") {
		gn := strings.TrimPrefix(name, "$g$")
		if i := strings.Index(gn, "$"); i > 0 {
			gn = gn[:i]
		}
		if g, ok := e.P.Spec.Ghosts[gn]; ok {
			if g.Scratch {
				return "true"
			}
			if g.Monotone {
				ks, _, _ := arrayParts(srt)
				k := Sym(e.Out.FreshName("af$k"))
				parts = append(parts, "(forall (("+k+" "+string(ks)+")) (! (=> (select "+entryV+" "+k+") (select "+cur+" "+k+")) :pattern ((select "+cur+" "+k+"))))")
			}
		}
	}
	a := allow[name]
	if a != nil && a.whole {
		return And(parts...)
	}
	top0 := e.top(e.entry)
	ks, vs, isArr := arrayParts(srt)
	switch {
	case !isArr:
		parts = append(parts, Eq(cur, entryV))
	case strings.HasPrefix(name, "$g$") || strings.HasPrefix(name, "G$"):
		k := Sym(e.Out.FreshName("af$k"))
		var ex []string
		if a != nil {
			for _, l := range a.refs {
				ex = append(ex, Not(l.member(k, "")))
			}
		}
		parts = append(parts, "(forall (("+k+" "+string(ks)+")) (! "+Imp(And(ex...), Eq(Sel(cur, k), Sel(entryV, k)))+" :pattern ((select "+cur+" "+k+"))))")
	default:
		r := Sym(e.Out.FreshName("af$r"))
		conds := []string{"(<= (owner " + r + ") " + top0 + ")"}
		k2s, _, twoLevel := arrayParts(vs)
		if strings.HasPrefix(name, "M$") {
			conds = append(conds, "(> "+r+" 0)")
		}
		if twoLevel && (strings.HasPrefix(name, "E$") || strings.HasPrefix(name, "M$")) {
			i := Sym(e.Out.FreshName("af$i"))
			if a != nil {
				for _, l := range a.refs {
					conds = append(conds, Not(l.member(r, i)))
				}
			}
			eq := Eq(Sel(Sel(cur, r), i), Sel(Sel(entryV, r), i))
			if strings.HasPrefix(name, "M$") && strings.HasSuffix(name, "$val") {
				domName := strings.TrimSuffix(name, "$val") + "$dom"
				if ds, ok := e.heapSorts[domName]; ok {
					eq = Imp(Sel(Sel(e.get(e.entry, domName, ds), r), i), eq)
				}
			}
			parts = append(parts, "(forall (("+r+" Int) ("+i+" "+string(k2s)+")) (! "+Imp(And(conds...), eq)+" :pattern ((select (select "+cur+" "+r+") "+i+"))))")
		} else {
			if a != nil {
				for _, l := range a.refs {
					conds = append(conds, Not(l.member(r, "")))
				}
			}
			parts = append(parts, "(forall (("+r+" Int)) (! "+Imp(And(conds...), Eq(Sel(cur, r), Sel(entryV, r)))+" :pattern ((select "+cur+" "+r+"))))")
		}
	}
	return And(parts...)
}

func (e *Exec) frameObligations(fr *Frame, exit *State, exitGuard string, envEntry *Env, suffix string) {
	ctr := fr.ctr
	allow := e.frameAllow(fr, envEntry)
	top0 := e.top(e.entry)
	for _, name := range sortedKeys(exit.H) {
		if name == "$top" || strings.HasPrefix(name, "$visited$") || strings.HasPrefix(name, "$defer$") || strings.HasPrefix(name, "$calls$") {
			continue
		}
		srt := e.heapSorts[name]
		entryV := e.get(e.entry, name, srt)
		if exit.H[name] == entryV {
			continue
		}
		if strings.HasPrefix(name, "$g$") {
			gn := strings.TrimPrefix(name, "$g$")
			if i := strings.Index(gn, "$"); i > 0 {
				gn = gn[:i]
			}
			if g, ok := e.P.Spec.Ghosts[gn]; ok && g.Scratch {
				continue
			}
		}
		a := allow[name]
		if strings.HasPrefix(name, "$g$") {
			if gv, ok := e.P.Spec.Ghosts[strings.TrimPrefix(name, "$g$")]; ok && gv.Monotone {
				ks, _, _ := arrayParts(srt)
				k := e.Out.Fresh("mono$k", ks)
				e.Out.AddObl(&Obligation{Name: fmt.Sprintf("%s/monotone:%s%s", FuncKey(fr.fn), gv.Name, suffix), Func: FuncKey(fr.fn), Kind: "frame", Label: gv.Name,
					Text: "the grow-only ghost set " + gv.Name + " never loses an element", Src: ctr.Src,
					Formula: Imp(And(exitGuard, Sel(entryV, k)), Sel(exit.H[name], k)), Inputs: e.inputTerms(fr)})
			}
		}
		if a != nil && a.whole {
			continue
		}
		var formula string
		ks, vs, isArr := arrayParts(srt)
		isGhost := strings.HasPrefix(name, "$g$")
		switch {
		case !isArr:
			formula = Eq(exit.H[name], entryV)
		case isGhost || strings.HasPrefix(name, "G$"):
			k := e.Out.Fresh("frame$k", ks)
			var ex []string
			if a != nil {
				for _, l := range a.refs {
					ex = append(ex, Not(l.member(k, "")))
				}
			}
			formula = Imp(And(ex...), Eq(Sel(exit.H[name], k), Sel(entryV, k)))
		default:
			r := e.Out.Fresh("frame$r", SInt)
			conds := []string{"(<= (owner " + r + ") " + top0 + ")"}
			_, _, twoLevel := arrayParts(vs)
			if strings.HasPrefix(name, "M$") {
				conds = append(conds, "(> "+r+" 0)") // the nil map has no observable row
			}
			if twoLevel && (strings.HasPrefix(name, "E$") || strings.HasPrefix(name, "M$")) {
				k2s, _, _ := arrayParts(vs)
				i := e.Out.Fresh("frame$i", k2s)
				if a != nil {
					for _, l := range a.refs {
						conds = append(conds, Not(l.member(r, i)))
						if l.lo != "" && l.off != "" && l.off != "0" {
							// a valid fact (idx o j = o + j) that names the index in the slice's own index space,
							// so that invariants written over x[j] can be instantiated at this element
							conds = append(conds, Eq(i, "(idx "+l.off+" (- "+i+" "+l.off+"))"))
						}
					}
				}
				eq := Eq(Sel(Sel(exit.H[name], r), i), Sel(Sel(entryV, r), i))
				if strings.HasPrefix(name, "M$") && strings.HasSuffix(name, "$val") {
					// map values are only observable for present keys (every read is guarded by the domain)
					domName := strings.TrimSuffix(name, "$val") + "$dom"
					if dv, ok := exit.H[domName]; ok {
						eq = Imp(Sel(Sel(dv, r), i), eq)
					} else if ds, ok := e.heapSorts[domName]; ok {
						eq = Imp(Sel(Sel(e.get(e.entry, domName, ds), r), i), eq)
					}
				}
				formula = Imp(And(conds...), eq)
			} else {
				if a != nil {
					for _, l := range a.refs {
						conds = append(conds, Not(l.member(r, "")))
					}
				}
				formula = Imp(And(conds...), Eq(Sel(exit.H[name], r), Sel(entryV, r)))
			}
		}
		e.Out.AddObl(&Obligation{Name: fmt.Sprintf("%s/frame:%s%s", FuncKey(fr.fn), name, suffix), Func: FuncKey(fr.fn), Kind: "frame", Label: name,
			Text: "locations of " + name + " allocated at entry and not listed in 'modifies' are unchanged", Src: ctr.Src, Formula: Imp(exitGuard, formula), Inputs: e.inputTerms(fr)})
	}
}

// emitSpecPrelude emits raw SMT blocks and axioms of the specification files.
func (e *Exec) emitSpecPrelude() {
	for _, l := range e.P.Spec.RawSMT {
		e.Out.emit(l)
	}
	env := &Env{e: e, vars: map[string]Val{}, st: e.entry, old: e.entry}
	for _, a := range e.P.Spec.Axioms {
		e.P.Trusted["axiom "+a.Label+": "+a.Text] = true
		e.Out.Assert(e.evalBool(a, env))
	}
}

// globalBytes returns the constant contents of a package-level []byte / [N]byte variable initialised by a
// composite literal of constants.
func (p *Program) globalBytes(g *ssa.Global) ([]byte, bool, bool) {
	pt := g.Type().(*types.Pointer).Elem()
	isSlice := false
	switch t := pt.Underlying().(type) {
	case *types.Slice:
		if b, ok := t.Elem().Underlying().(*types.Basic); !ok || b.Kind() != types.Uint8 {
			return nil, false, false
		}
		isSlice = true
	case *types.Array:
		if b, ok := t.Elem().Underlying().(*types.Basic); !ok || b.Kind() != types.Uint8 {
			return nil, false, false
		}
	default:
		return nil, false, false
	}
	init := p.globalInit(g)
	cl, ok := init.(*ast.CompositeLit)
	if !ok {
		return nil, false, false
	}
	pk := p.ByPath[g.Pkg.Pkg.Path()]
	var out []byte
	for _, el := range cl.Elts {
		tv, ok := pk.TypesInfo.Types[el]
		if !ok || tv.Value == nil {
			return nil, false, false
		}
		n, ok := constant.Int64Val(tv.Value)
		if !ok {
			return nil, false, false
		}
		out = append(out, byte(n))
	}
	if arr, ok := pt.Underlying().(*types.Array); ok {
		for int64(len(out)) < arr.Len() {
			out = append(out, 0)
		}
	}
	return out, isSlice, true
}

// globalIsNewError reports whether a package-level variable of interface type is initialised by errors.New(...).
func (p *Program) globalIsNewError(g *ssa.Global) bool {
	pt := g.Type().(*types.Pointer).Elem()
	if _, ok := pt.Underlying().(*types.Interface); !ok {
		return false
	}
	call, ok := p.globalInit(g).(*ast.CallExpr)
	if !ok {
		return false
	}
	sel, ok := call.Fun.(*ast.SelectorExpr)
	if !ok || sel.Sel.Name != "New" {
		return false
	}
	id, ok := sel.X.(*ast.Ident)
	return ok && id.Name == "errors"
}
