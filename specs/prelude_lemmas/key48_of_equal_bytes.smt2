; Prelude lemma L-key48: equal byte snapshots have equal 48-byte keys. Proved here from the defining axioms of key48 and
; snapb for an arbitrary witness index i (array extensionality turns "equal at every index" into equality of the arrays).
; The last assertion before check-sat is a congruence consequence of the hypothesis, given as an instantiation hint.
(set-logic ALL)
(declare-datatypes ((Bytes 0)) (((mkb (blen Int) (barr (Array Int Int))))))
(declare-fun key48 ((Array Int Int) Int Int) (Array Int Int))
(assert (forall ((r (Array Int Int)) (o Int) (n Int) (i Int)) (! (= (select (key48 r o n) i) (ite (and (<= 0 i) (< i 48) (< i n)) (select r (+ o i)) 0)) :pattern ((select (key48 r o n) i)))))
(declare-fun snapb ((Array Int Int) Int Int) Bytes)
(assert (forall ((r (Array Int Int)) (o Int) (n Int)) (! (and (= (blen (snapb r o n)) n) (= (select (barr (snapb r o n)) n) 0)) :pattern ((snapb r o n)))))
(assert (forall ((r (Array Int Int)) (o Int) (n Int) (i Int)) (! (= (select (barr (snapb r o n)) i) (ite (and (<= 0 i) (< i n)) (select r (+ o i)) 0)) :pattern ((select (barr (snapb r o n)) i)))))
(declare-const r1 (Array Int Int))
(declare-const r2 (Array Int Int))
(declare-const o1 Int)
(declare-const o2 Int)
(declare-const n1 Int)
(declare-const n2 Int)
(assert (= (snapb r1 o1 n1) (snapb r2 o2 n2)))
(declare-const i Int)
; extensionality witness
(assert (not (= (select (key48 r1 o1 n1) i) (select (key48 r2 o2 n2) i))))
; instantiation hints
(assert (= (select (barr (snapb r1 o1 n1)) i) (select (barr (snapb r2 o2 n2)) i)))
(check-sat)
