; Prelude lemma L-key48-snap: the 48-byte key of a byte range equals the 48-byte key of its snapshot.
; Proved from the defining axioms of key48 and snapb for an arbitrary witness index i (array extensionality turns
; "equal at every index" into equality of the arrays).
(set-logic ALL)
(declare-datatypes ((Bytes 0)) (((mkb (blen Int) (barr (Array Int Int))))))
(declare-fun key48 ((Array Int Int) Int Int) (Array Int Int))
(assert (forall ((r (Array Int Int)) (o Int) (n Int) (i Int)) (! (= (select (key48 r o n) i) (ite (and (<= 0 i) (< i 48) (< i n)) (select r (+ o i)) 0)) :pattern ((select (key48 r o n) i)))))
(declare-fun snapb ((Array Int Int) Int Int) Bytes)
(assert (forall ((r (Array Int Int)) (o Int) (n Int)) (! (and (= (blen (snapb r o n)) n) (= (select (barr (snapb r o n)) n) 0)) :pattern ((snapb r o n)))))
(assert (forall ((r (Array Int Int)) (o Int) (n Int) (i Int)) (! (= (select (barr (snapb r o n)) i) (ite (and (<= 0 i) (< i n)) (select r (+ o i)) 0)) :pattern ((select (barr (snapb r o n)) i)))))
(declare-const r (Array Int Int))
(declare-const o Int)
(declare-const n Int)
(declare-const i Int)
(assert (not (= (select (key48 r o n) i) (select (key48 (barr (snapb r o n)) 0 n) i))))
(check-sat)
