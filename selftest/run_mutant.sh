#!/bin/sh
# usage: selftest/run_mutant.sh <patch file> <property id>...   — applies the patch to a scratch copy of /repo and runs the quick checks
set -u
patch=$(realpath "$1"); shift
scr=$(mktemp -d /tmp/govc-mut.XXXXXX)
rsync -a --exclude .git /repo/ "$scr"/
(cd "$scr" && patch -p1 -s < "$patch") || { echo "PATCH-FAILED $patch"; rm -rf "$scr"; exit 2; }
cd /verif
for id in "$@"; do
  out=$(VERIF_REPO="$scr" ./check "$id" quick 2>&1)
  n=$(echo "$out" | grep -c '^VIOLATION')
  echo "$(basename "$patch") $id violations=$n $(echo "$out" | tail -1)"
  echo "$out" | grep '^VIOLATION' | sed 's/replay=[^ ]* //' | cut -c1-220 | head -4
done
rm -rf "$scr"
