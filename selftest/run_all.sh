#!/bin/sh
# usage: selftest/run_all.sh [pattern]  — every mutant must be reported by the quick check of the property in its file name
# (CTRL-* mutants name their property after the dash in selftest/ctrl_map). Prints SURVIVED lines; exit 1 if any.
cd /verif
bad=0
for m in selftest/mutants/${1:-*}.patch; do
  b=$(basename "$m" .patch)
  id=${b%%-*}
  want=kill
  mapped=$(grep "^$b " selftest/prop_map 2>/dev/null | cut -d' ' -f2)
  [ -n "$mapped" ] && id=$mapped
  case "$b" in
    CTRL-*) id=$(grep "^$b " selftest/ctrl_map | cut -d' ' -f2); want=$(grep "^$b " selftest/ctrl_map | cut -d' ' -f3);;
    C08-batch-*|C07-batch-*) id=C06;;
    C05-ruler-*) id=C04;;
  esac
  [ -z "$id" ] && { echo "NO-PROPERTY $b"; continue; }
  out=$(./selftest/run_mutant.sh "$m" "$id" 2>&1 | head -1)
  if [ "$want" = pass ]; then
    case "$out" in
      *"violations=0"*) echo "quiet    $b ($id) as expected";;
      *) echo "FALSE-ALARM $out"; bad=1;;
    esac
    continue
  fi
  case "$out" in
    *"violations=0"*|*PATCH-FAILED*) echo "SURVIVED $out"; bad=1;;
    *) echo "killed   $b ($id)";;
  esac
done
# equivalent mutants are negative controls: no alarm expected
for m in selftest/equivalent/*.patch; do
  b=$(basename "$m" .patch); id=${b%%-*}
  out=$(./selftest/run_mutant.sh "$m" "$id" 2>&1 | head -1)
  case "$out" in
    *"violations=0"*) echo "quiet    $b ($id) as expected";;
    *) echo "FALSE-ALARM $out"; bad=1;;
  esac
done
exit $bad
