#!/bin/sh
# usage: selftest/run_all.sh [pattern] [parallel jobs]  — every mutant must be reported by the quick check of the property in
# its file name (CTRL-* mutants name their property and expectation in selftest/ctrl_map; selftest/equivalent/* must stay
# quiet). Prints one line per mutant; exit 1 if any SURVIVED or FALSE-ALARM line was printed.
cd /verif
one() {
  m=$1
  b=$(basename "$m" .patch)
  case "$m" in
    selftest/equivalent/*) id=${b%%-*}; want=pass;;
    *)
      id=${b%%-*}; want=kill
      case "$b" in
        CTRL-*) id=$(grep "^$b " selftest/ctrl_map | cut -d' ' -f2); want=$(grep "^$b " selftest/ctrl_map | cut -d' ' -f3);;
        C08-batch-*|C07-batch-*) id=C06;;
        C05-ruler-*) id=C04;;
      esac
      mapped=$(grep "^$b " selftest/prop_map 2>/dev/null | cut -d' ' -f2)
      [ -n "$mapped" ] && id=$mapped;;
  esac
  [ -z "$id" ] && { echo "NO-PROPERTY $b"; return; }
  out=$(./selftest/run_mutant.sh "$m" "$id" 2>&1 | head -1)
  case "$out" in *" quick: "*) ;; *PATCH-FAILED*) ;; *) echo "CHECK-ERROR $b: $out"; return;; esac
  if [ "$want" = pass ]; then
    case "$out" in
      *"violations=0"*) echo "quiet    $b ($id) as expected";;
      *) echo "FALSE-ALARM $out";;
    esac
    return
  fi
  case "$out" in
    *"violations=0"*|*PATCH-FAILED*) echo "SURVIVED $out";;
    *) echo "killed   $b ($id)";;
  esac
}
if [ "${1:-}" = "--one" ]; then one "$2"; exit 0; fi
log=$(mktemp)
ls selftest/mutants/${1:-*}.patch selftest/equivalent/*.patch | xargs -P "${2:-3}" -n 1 "$0" --one | tee "$log"
bad=0; grep -q '^SURVIVED\|^FALSE-ALARM\|^CHECK-ERROR\|^NO-PROPERTY' "$log" && bad=1
rm -f "$log"
exit $bad
