/-
Quorum intersection (C14), independently of the SMT proof of lemma `quorum_intersection`:
two sets of instances of size at least t out of n instances, with 2t > n, share an instance.
Checked by Lean 4 + Mathlib in the thorough tier of `./check C14 thorough`.
-/
import Mathlib.Data.Finset.Card
import Mathlib.Data.Fintype.Card
import Mathlib.Tactic

open Finset

theorem quorum_intersection {α : Type*} [DecidableEq α] (U A B : Finset α) (t : ℕ)
    (hA : A ⊆ U) (hB : B ⊆ U) (hAt : t ≤ A.card) (hBt : t ≤ B.card) (hmaj : U.card < 2 * t) :
    (A ∩ B).Nonempty := by
  by_contra h
  rw [Finset.not_nonempty_iff_eq_empty] at h
  have hcard : (A ∪ B).card + (A ∩ B).card = A.card + B.card := Finset.card_union_add_card_inter A B
  have hsub : (A ∪ B).card ≤ U.card := Finset.card_le_card (Finset.union_subset hA hB)
  rw [h, Finset.card_empty] at hcard
  omega
