#!/bin/sh
# Bounded audit of the axioms A-fmt-dec and A-fmt-hex (C11): what fmt.Sprintf("%d", int64) and fmt.Sprintf("%#x", []byte)
# print is what strconv.ParseInt(s, 10, 64) and hex.DecodeString(strings.TrimPrefix(s, "0x")) read back. Bounded: the
# int64 boundary values, -1, 0, and 2,000,000 pseudo-random values; 200,000 pseudo-random 48-byte keys plus the all-zero
# and all-0xff keys. This audits the axioms; it is not part of any proof.
set -eu
export GOFLAGS=-mod=mod GOPROXY=off GOSUMDB=off GOTOOLCHAIN=local
tmp=$(mktemp -d); trap 'rm -rf "$tmp"' EXIT
cat > "$tmp/main.go" <<'GO'
package main

import (
	"bytes"
	"encoding/hex"
	"fmt"
	"math"
	"math/rand"
	"os"
	"strconv"
	"strings"
)

func main() {
	r := rand.New(rand.NewSource(1))
	vals := []int64{math.MinInt64, math.MinInt64 + 1, -1, 0, 1, math.MaxInt64 - 1, math.MaxInt64}
	for i := 0; i < 2000000; i++ {
		vals = append(vals, int64(r.Uint64()))
	}
	for _, v := range vals {
		got, err := strconv.ParseInt(fmt.Sprintf("%d", v), 10, 64)
		if err != nil || got != v {
			fmt.Println("A-fmt-dec fails for", v, got, err)
			os.Exit(1)
		}
	}
	keys := [][]byte{make([]byte, 48), bytes.Repeat([]byte{0xff}, 48)}
	for i := 0; i < 200000; i++ {
		k := make([]byte, 48)
		r.Read(k)
		keys = append(keys, k)
	}
	for _, k := range keys {
		got, err := hex.DecodeString(strings.TrimPrefix(fmt.Sprintf("%#x", k), "0x"))
		if err != nil || !bytes.Equal(got, k) {
			fmt.Printf("A-fmt-hex fails for %x\n", k)
			os.Exit(1)
		}
	}
	fmt.Println("audit ok:", len(vals), "integers,", len(keys), "keys")
}
GO
(cd "$tmp" && printf 'module audit\ngo 1.22\n' > go.mod && go run main.go)
