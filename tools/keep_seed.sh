#!/bin/sh
# usage: tools/keep_seed.sh <seed name> <property> <patch> <demo test file> <demo package dir> <notes.md> [test packages...]
# Confirms in a scratch copy of /repo that (a) with the patch the project builds and the existing tests of the given
# packages pass, (b) the demo fails with the patch and passes without it; then runs ./check <property> against the
# patched copy and stores everything under /verif/seeded/<name>/.
set -u
name="$1"; prop="$2"; patch=$(realpath "$3"); demo=$(realpath "$4"); pkgdir="$5"; notes=$(realpath "$6"); shift 6
pkgs="${*:-./...}"
export GOFLAGS=-mod=mod GOPROXY=off GOSUMDB=off GOTOOLCHAIN=local
scr=$(mktemp -d /tmp/govc-seed.XXXXXX)
rsync -a --exclude .git /repo/ "$scr"/
out=/verif/seeded/$name; mkdir -p "$out"
cp "$patch" "$out/patch.diff"; cp "$demo" "$out/demo_test.go.txt"; cp "$notes" "$out/notes.md"
cd "$scr"
cp "$demo" "$pkgdir/zz_demo_test.go"
clean_demo=$(go test -vet=off -count=1 -run "${DEMO_RUN:-Demo}" "./$pkgdir/" 2>&1 | tail -3)
case "$clean_demo" in *ok*) clean=pass;; *) clean=FAIL;; esac
rm "$pkgdir/zz_demo_test.go"
if ! patch -p1 -s < "$patch"; then echo "PATCH-FAILED"; rm -rf "$scr"; exit 2; fi
build=$(go build ./... 2>&1 | tail -3); [ -z "$build" ] && build=ok
tests=$(go test -vet=off -count=1 $pkgs 2>&1 | grep -E '^(--- FAIL|FAIL|panic)' | grep -v 'TestRules' | grep -v '^FAIL$' | grep -v 'rules/standard' | head -5)
[ -z "$tests" ] && tests="pass (TestRules/PathDisallowed fails in the baseline as well)"
cp "$demo" "$pkgdir/zz_demo_test.go"
pd=$(go test -vet=off -count=1 -timeout 120s -run "${DEMO_RUN:-Demo}" "./$pkgdir/" 2>&1 | tail -5)
case "$pd" in *FAIL*|*panic*) patched=fail;; *) patched=PASSES;; esac
rm "$pkgdir/zz_demo_test.go"
cd /verif
chk=$(VERIF_REPO="$scr" ./check "$prop" quick 2>&1)
nv=$(echo "$chk" | grep -c '^VIOLATION')
echo "$chk" | grep -q ' quick: [0-9]* obligations' || { echo "CHECK-ERROR $name: $(echo "$chk" | tail -2)"; nv=-1; }
obl=$(echo "$chk" | grep '^VIOLATION' | sed 's/.*obligation=//' | head -5 | tr '\n' ';')
python3 - "$out" "$name" "$prop" "$clean" "$patched" "$build" "$tests" "$nv" "$obl" "$pkgs" <<'PY'
import json,sys
out,name,prop,clean,patched,build,tests,nv,obl,pkgs=sys.argv[1:]
notes=open(out+'/notes.md').read()
meta={"seed":name,"breaks_property":prop,"needs_to_manifest":notes[:1500],
 "confirmed_in_scratch_copy":{"demo_on_unchanged_tree":clean,"demo_with_patch":patched,"build_with_patch":build,"existing_tests_with_patch("+pkgs+")":tests},
 "check_result":{"command":f"VERIF_REPO=<patched copy> ./check {prop} quick","violations":int(nv),"failed_obligations":obl}}
json.dump(meta,open(out+'/meta.json','w'),indent=1)
print(name,prop,"demo clean:",clean,"patched:",patched,"build:",build,"tests:",tests[:60],"| check violations:",nv,obl[:200])
PY
rm -rf "$scr"
