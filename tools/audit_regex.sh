#!/bin/sh
# Bounded audit of axiom A-re (C07): for every pattern p and subject s of a small corpus, Go's
# regexp.MustCompile("(?i)^(?:"+p+")$").MatchString(s) must equal Python's re.fullmatch(p, s, re.IGNORECASE) — an
# independent regular-expression implementation. Bounded: patterns over {a,b,.,*,|,(,)} up to length 4 that both engines
# accept, subjects over {a,b,A,c} up to length 3. This audits the axiom; it is not part of any proof.
set -eu
export GOFLAGS=-mod=mod GOPROXY=off GOSUMDB=off GOTOOLCHAIN=local
tmp=$(mktemp -d); trap 'rm -rf "$tmp"' EXIT
cat > "$tmp/main.go" <<'GO'
package main

import (
	"encoding/json"
	"os"
	"regexp"
)

func gen(alpha string, max int) []string {
	out := []string{""}
	cur := []string{""}
	for l := 1; l <= max; l++ {
		var next []string
		for _, c := range cur {
			for _, a := range alpha {
				next = append(next, c+string(a))
			}
		}
		out = append(out, next...)
		cur = next
	}
	return out
}

func main() {
	pats := gen("ab.*|()", 4)
	subs := gen("abAc", 3)
	res := map[string][]bool{}
	for _, p := range pats {
		re, err := regexp.Compile("(?i)^(?:" + p + ")$")
		if err != nil {
			continue
		}
		var row []bool
		for _, s := range subs {
			row = append(row, re.MatchString(s))
		}
		res[p] = row
	}
	json.NewEncoder(os.Stdout).Encode(map[string]any{"subjects": subs, "results": res})
}
GO
(cd "$tmp" && cat > go.mod <<'MOD'
module audit
go 1.22
MOD
go run main.go > "$tmp/go.json")
python3 - "$tmp/go.json" <<'PY'
import json,re,sys
d=json.load(open(sys.argv[1]))
subs=d["subjects"]; n=0; bad=0; skipped=0
for p,row in d["results"].items():
    try:
        rx=re.compile(p, re.IGNORECASE)
    except re.error:
        skipped+=1; continue
    for s,g in zip(subs,row):
        n+=1
        if (rx.fullmatch(s) is not None)!=g:
            bad+=1
            if bad<=5: print("MISMATCH pattern=%r subject=%r go=%s python=%s"%(p,s,g,not g))
print("audited %d (pattern,subject) pairs, %d patterns not accepted by python skipped, %d mismatches"%(n,skipped,bad))
sys.exit(1 if bad else 0)
PY
