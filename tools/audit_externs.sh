#!/bin/sh
# Bounded audit of assumed contracts on library functions (C01, C02, C11): each stated clause is executed against the
# real function on boundary and pseudo-random inputs. This audits assumptions; it is not part of any proof.
#  - encoding/gob: a zero-valued field is not transmitted and the decoder leaves the destination's field as it was; a
#    non-zero field is transmitted and overwrites it (presence predicates gobAttHasS/T, gobPropHasL);
#  - encoding/binary.LittleEndian PutUint64/Uint64: byte layout and round trip;
#  - go-bytesutil.ToBytes48: the first 48 bytes, zero padded (spec key48);
#  - bytes.Equal, strings.HasPrefix/HasSuffix/Contains/TrimPrefix/Split against their definitions.
set -eu
export GOFLAGS=-mod=mod GOPROXY=off GOSUMDB=off GOTOOLCHAIN=local
repo=${VERIF_REPO:-/repo}
tmp=$(mktemp -d); trap 'rm -rf "$tmp"' EXIT
gover=$(sed -n 's/^go \([0-9.]*\).*/\1/p' "$repo/go.mod" | head -1)
cat > "$tmp/go.mod" <<MOD
module audit
go $gover
require github.com/attestantio/dirk v0.0.0
replace github.com/attestantio/dirk => $repo
MOD
cp "$repo/go.sum" "$tmp/go.sum"
cat > "$tmp/main.go" <<'GO'
package main

import (
	"bytes"
	"encoding/binary"
	"encoding/gob"
	"fmt"
	"math/rand"
	"os"
	"strings"

	_ "github.com/attestantio/dirk/core"
	bytesutil "github.com/wealdtech/go-bytesutil"
)

type att struct {
	SourceEpoch int64
	TargetEpoch int64
}
type prop struct{ Slot int64 }

func fail(f string, a ...any) { fmt.Printf("AUDIT FAILED: "+f+"\n", a...); os.Exit(1) }

func main() {
	r := rand.New(rand.NewSource(7))
	// gob: presence semantics
	vals := []int64{0, 1, -1, 5, 1 << 40, -(1 << 40)}
	for i := 0; i < 2000; i++ {
		vals = append(vals, int64(r.Uint64()))
	}
	for _, s := range vals {
		for _, t := range []int64{0, 7, s} {
			var buf bytes.Buffer
			if err := gob.NewEncoder(&buf).Encode(&att{s, t}); err != nil {
				fail("gob encode: %v", err)
			}
			for _, pre := range []int64{0, -1, 42} {
				dst := att{pre, pre}
				if err := gob.NewDecoder(bytes.NewBuffer(buf.Bytes())).Decode(&dst); err != nil {
					fail("gob decode: %v", err)
				}
				wantS, wantT := s, t
				if s == 0 {
					wantS = pre
				}
				if t == 0 {
					wantT = pre
				}
				if dst.SourceEpoch != wantS || dst.TargetEpoch != wantT {
					fail("gob presence: wrote {%d,%d} into {%d,%d}, got {%d,%d}", s, t, pre, pre, dst.SourceEpoch, dst.TargetEpoch)
				}
			}
		}
		var buf bytes.Buffer
		_ = gob.NewEncoder(&buf).Encode(&prop{s})
		for _, pre := range []int64{0, -1} {
			dst := prop{pre}
			if err := gob.NewDecoder(bytes.NewBuffer(buf.Bytes())).Decode(&dst); err != nil {
				fail("gob decode: %v", err)
			}
			want := s
			if s == 0 {
				want = pre
			}
			if dst.Slot != want {
				fail("gob presence (proposal): %d into %d gives %d", s, pre, dst.Slot)
			}
		}
	}
	// little endian
	for i := 0; i < 200000; i++ {
		v := r.Uint64()
		b := make([]byte, 8)
		binary.LittleEndian.PutUint64(b, v)
		w := v
		for k := 0; k < 8; k++ {
			if uint64(b[k]) != w%256 {
				fail("PutUint64 layout for %d at byte %d", v, k)
			}
			w /= 256
		}
		if binary.LittleEndian.Uint64(b) != v {
			fail("Uint64 round trip for %d", v)
		}
	}
	// ToBytes48 = first 48 bytes, zero padded
	for _, n := range []int{0, 1, 10, 47, 48, 49, 60, 96} {
		x := make([]byte, n)
		r.Read(x)
		y := bytesutil.ToBytes48(x)
		for i := 0; i < 48; i++ {
			var want byte
			if i < n {
				want = x[i]
			}
			if y[i] != want {
				fail("ToBytes48 for length %d at %d", n, i)
			}
		}
	}
	// strings / bytes
	alpha := []string{"", "a", "0x", "0x0x", "ab/c", "Wallet/Acc", ":", "a:b", "a:b:c", "::"}
	for _, s := range alpha {
		for _, p := range alpha {
			if strings.HasPrefix(s, p) != (len(s) >= len(p) && s[:len(p)] == p) {
				fail("HasPrefix(%q,%q)", s, p)
			}
			if strings.HasSuffix(s, p) != (len(s) >= len(p) && s[len(s)-len(p):] == p) {
				fail("HasSuffix(%q,%q)", s, p)
			}
			if strings.Contains(s, p) != (strings.Index(s, p) >= 0) {
				fail("Contains(%q,%q)", s, p)
			}
			tp := strings.TrimPrefix(s, p)
			if strings.HasPrefix(s, p) && tp != s[len(p):] || !strings.HasPrefix(s, p) && tp != s {
				fail("TrimPrefix(%q,%q)", s, p)
			}
			if p != "" && len(strings.Split(s, p)) < 1 {
				fail("Split(%q,%q) is empty", s, p)
			}
			if bytes.Equal([]byte(s), []byte(p)) != (s == p) {
				fail("bytes.Equal(%q,%q)", s, p)
			}
		}
	}
	fmt.Println("audit ok: gob presence semantics,", len(vals), "values; little endian; ToBytes48; strings/bytes")
}
GO
(cd "$tmp" && go run .)
