#!/bin/sh
# usage: tools/recheck_seeds.sh [name pattern] [parallel jobs]  — re-runs the quick check of every kept seeded change against
# a scratch copy of /repo with the change applied, and refreshes check_result in its meta.json (the demonstrations are not
# re-run). CHECK-ERROR means the check did not run to its summary line (never counted as a detection).
cd /verif
one() {
  d=$1
  name=$(basename "$d"); prop=$(python3 -c "import json;print(json.load(open('$d/meta.json'))['breaks_property'])")
  scr=$(mktemp -d /tmp/govc-seed.XXXXXX)
  rsync -a --exclude .git /repo/ "$scr"/
  if ! (cd "$scr" && patch -p1 -s < "/verif/$d/patch.diff"); then echo "PATCH-FAILED $name"; rm -rf "$scr"; return; fi
  chk=$(VERIF_REPO="$scr" ./check "$prop" quick 2>&1)
  nv=$(echo "$chk" | grep -c '^VIOLATION')
  echo "$chk" | grep -q ' quick: [0-9]* obligations' || { echo "CHECK-ERROR $name: $(echo "$chk" | tail -2)"; nv=-1; }
  obl=$(echo "$chk" | grep '^VIOLATION' | sed 's/.*obligation=//' | head -5 | tr '\n' ';')
  python3 - "$d/meta.json" "$nv" "$obl" "$prop" <<'PY'
import json,sys
p,nv,obl,prop=sys.argv[1:]
m=json.load(open(p))
m['check_result']={"command":f"VERIF_REPO=<patched copy> ./check {prop} quick","violations":int(nv),"failed_obligations":obl}
json.dump(m,open(p,'w'),indent=1)
PY
  echo "$name $prop violations=$nv $(echo "$obl" | cut -c1-160)"
  rm -rf "$scr"
}
if [ "${1:-}" = "--one" ]; then one "$2"; exit 0; fi
ls -d seeded/${1:-*}/ | xargs -P "${2:-3}" -n 1 "$0" --one
