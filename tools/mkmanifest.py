#!/usr/bin/env python3
"""Regenerates MANIFEST.json from tools/claims.json (the per-property claim texts) — keeps the interface file valid."""
import json, os, subprocess
root = os.path.dirname(os.path.dirname(os.path.abspath(__file__)))
claims = json.load(open(os.path.join(root, "tools", "claims.json")))
props = [json.loads(l)["id"] for l in open(os.path.join(root, "properties.jsonl"))]
checks, na = [], []
for pid in props:
    c = claims.get(pid)
    if c and c.get("claimed"):
        checks.append({
            "property_id": pid,
            "quick_cmd": f"./check {pid} quick",
            "thorough_cmd": f"./check {pid} thorough",
            "evidence_file": f"/verif/evidence/{pid}.json",
            "replay_cmd_template": f"./check {pid} --replay {{path}}",
            "engine": "govc",
            "level_claimed": {"category": "proof", "text": c["text"], "design_ref": c.get("design_ref", "DESIGN.md section 4 " + pid)},
            "level_note": c["note"],
            "technique": c.get("technique", "contract-based deductive verification: VCs generated from go/ssa of /repo by govc, contracts in verif_contracts.go, discharged by z3/cvc5"),
        })
    else:
        na.append({"property_id": pid, "reason": (c or {}).get("reason", "not reached: no contract set for this property has been built yet")})
hooks_commits = subprocess.run(["git", "-C", "/repo", "log", "--format=%h", "--grep=^verif:"], capture_output=True, text=True).stdout.split()
m = {
    "version": 1,
    "setup_cmd": "cd /verif && GOFLAGS=-mod=mod GOPROXY=off GOSUMDB=off GOTOOLCHAIN=local go build -o bin/govc ./cmd/govc",
    "hooks": {
        "guard": "verif",
        "enable": "-tags verif: the only hook files are comment-only verif_contracts.go files (//go:build verif) read by govc; they contain no code",
        "baseline_off_cmd": "cd /repo && GOFLAGS=-mod=mod GOPROXY=off GOSUMDB=off go test -json -vet=off -count=1 -timeout 25m ./...",
        "source_commits": hooks_commits,
        "add_only": True,
    },
    "engines": [{"name": "govc", "path": "/verif/cmd/govc", "serves_properties": [c["property_id"] for c in checks],
                 "kind_free_text": "self-written VC generator over go/ssa (x/tools v0.29.0): symbolic execution with exact machine integers, Boogie-style typed heap, modular calls by contract, loop invariants, ghost state, lemmas over contracts; obligations raced on z3 5.1.0 / z3 4.8.12 / cvc5 1.0.3; replay of counterexamples on the real code via go test -overlay"}],
    "checks": checks,
    "not_applicable": na,
    "notes": "Technique family: contract-based deductive verification of the real code. See DESIGN.md. known_findings.json lists fixed/known findings.",
}
json.dump(m, open(os.path.join(root, "MANIFEST.json"), "w"), indent=1)
print("claimed:", [c["property_id"] for c in checks])
