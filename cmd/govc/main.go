package main

import (
	"flag"
	"fmt"
	"os"
	"strings"

	"govc/internal/vc"
)

func main() {
	if len(os.Args) < 2 {
		fmt.Fprintln(os.Stderr, "usage: govc verify|check ...")
		os.Exit(2)
	}
	switch os.Args[1] {
	case "verify":
		verifyCmd(os.Args[2:])
	case "check":
		checkCmd(os.Args[2:])
	case "annotate-loops":
		annotateLoopsCmd(os.Args[2:])
	default:
		fmt.Fprintln(os.Stderr, "unknown command", os.Args[1])
		os.Exit(2)
	}
}

// verify: developer entry point — verify single functions and print every obligation.
func verifyCmd(args []string) {
	fs := flag.NewFlagSet("verify", flag.ExitOnError)
	repo := fs.String("repo", "/repo", "repository root")
	specs := fs.String("specs", "/verif/specs", "spec directory")
	pkgs := fs.String("pkgs", "./...", "package patterns (comma separated)")
	timeout := fs.Int("timeout", 10, "per-obligation timeout (s)")
	dump := fs.String("dump", "", "directory to keep SMT scripts")
	sweep := fs.Bool("sweep", false, "no-panic sweep mode")
	fs.Parse(args)
	prog, err := vc.Load(*repo, strings.Split(*pkgs, ","))
	if err != nil {
		fmt.Fprintln(os.Stderr, "load:", err)
		os.Exit(2)
	}
	if err := prog.LoadContracts(*specs); err != nil {
		fmt.Fprintln(os.Stderr, "contracts:", err)
		os.Exit(2)
	}
	fail := false
	var tmpDirs []string
	for _, key := range fs.Args() {
		fn := prog.FindFunc(key)
		if fn == nil {
			fmt.Println("NOT FOUND", key)
			fail = true
			continue
		}
		ex := &vc.Exec{P: prog, Out: vc.NewScript(), Opt: vc.Options{Sweep: *sweep}}
		err := ex.VerifyFunction(fn, prog.Spec.Contracts[vc.FuncKey(fn)])
		if err != nil {
			fmt.Println("ERROR", key, err)
			fail = true
			continue
		}
		dir := *dump
		if dir == "" {
			dir, _ = os.MkdirTemp("", "govc")
			tmpDirs = append(tmpDirs, dir)
		}
		vc.Solve(ex.Out, dir, *timeout, 16, false)
		vc.PostProcess(ex.Out)
		for _, o := range ex.Out.Obls {
			fmt.Printf("%-10s %-8s %6.2fs %s\n", o.Status, o.Solver, o.TimeS, o.Name)
			if o.Status != "discharged" {
				fail = true
				fmt.Printf("    clause: %s\n    %s\n", o.Text, o.Detail)
				for i, ob := range o.Obs {
					fmt.Printf("    obs %d: %s\n", i, ob.Text)
				}
				if o.Model != "" {
					m := o.Model
					if len(m) > 1500 {
						m = m[:1500]
					}
					fmt.Printf("    model: %s\n", strings.ReplaceAll(m, "\n", "\n      "))
				}
			}
		}
	}
	for _, d := range tmpDirs {
		os.RemoveAll(d)
	}
	if fail {
		os.Exit(1)
	}
}

// annotate-loops: tag every "//@ loop #k" line of the contract files with the source text of the loop header it
// stands for ("over <text>"), so that the annotations follow their loop when loops are inserted or removed before it.
// Run after adding loop annotations; lines that already carry a tag are left alone unless -refresh is given.
func annotateLoopsCmd(args []string) {
	fs := flag.NewFlagSet("annotate-loops", flag.ExitOnError)
	repo := fs.String("repo", "/repo", "repository root")
	specs := fs.String("specs", "/verif/specs", "spec directory")
	pkgs := fs.String("pkgs", "./...", "package patterns (comma separated)")
	refresh := fs.Bool("refresh", false, "rewrite existing tags as well")
	fs.Parse(args)
	prog, err := vc.Load(*repo, strings.Split(*pkgs, ","))
	if err != nil {
		fmt.Fprintln(os.Stderr, "load:", err)
		os.Exit(2)
	}
	if err := prog.LoadContracts(*specs); err != nil {
		fmt.Fprintln(os.Stderr, "contracts:", err)
		os.Exit(2)
	}
	edits := map[string]map[int]string{} // file -> line -> tag
	for key, ctr := range prog.Spec.Contracts {
		if len(ctr.Loops) == 0 {
			continue
		}
		fn := prog.FindFunc(key)
		if fn == nil {
			continue
		}
		prog.BuildFor(fn)
		texts := vc.LoopTexts(fn)
		if texts == nil {
			fmt.Fprintf(os.Stderr, "skip %s: loops of the syntax tree and of the SSA form do not pair up\n", key)
			continue
		}
		for ord, sp := range ctr.Loops {
			if ord < 1 || ord > len(texts) || (sp.Over != "" && !*refresh) {
				continue
			}
			i := strings.LastIndex(sp.Src, ":")
			if i < 0 {
				continue
			}
			var line int
			fmt.Sscanf(sp.Src[i+1:], "%d", &line)
			file := sp.Src[:i]
			if edits[file] == nil {
				edits[file] = map[int]string{}
			}
			edits[file][line] = texts[ord-1]
		}
	}
	n := 0
	for file, lines := range edits {
		b, err := os.ReadFile(file)
		if err != nil {
			fmt.Fprintln(os.Stderr, err)
			continue
		}
		ls := strings.Split(string(b), "\n")
		for ln, tag := range lines {
			if ln < 1 || ln > len(ls) {
				continue
			}
			l := ls[ln-1]
			if !strings.HasPrefix(strings.TrimSpace(l), "//@ loop #") {
				continue
			}
			if i := strings.Index(l, " over "); i > 0 {
				l = l[:i]
			}
			ls[ln-1] = strings.TrimRight(l, " ") + " over " + tag
			n++
		}
		os.WriteFile(file, []byte(strings.Join(ls, "\n")), 0o644)
	}
	fmt.Printf("tagged %d loop annotations in %d files\n", n, len(edits))
}
