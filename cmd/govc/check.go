package main

import (
	"bufio"
	"context"
	"encoding/json"
	"flag"
	"fmt"
	"os"
	"os/exec"
	"path/filepath"
	"regexp"
	"sort"
	"strings"
	"sync"
	"time"

	"govc/internal/vc"
)

type plan struct {
	Property   string
	Packages   []string
	Context    string
	Verify     []string
	Sweep      []string
	Lemmas     []string
	Replay     [][2]string // obligation substring -> adapter
	Except     []string    // obligation-name substrings that belong to another property's claim and are not counted here
	Assume     []string
	NotDecided []string
	Bounded    []string
	Refines    [][2]string
	RefineModel map[string]map[string]string // impl key -> interface spec function -> model spec function
	Thorough   [][2]string // label, shell command: independent or bounded cross-checks run in the thorough tier only
	Frozen     [][2]string // package path, type name: fields of constructed objects are never reassigned (SSA scan)
}

func readPlan(path string) (*plan, error) {
	f, err := os.Open(path)
	if err != nil {
		return nil, err
	}
	defer f.Close()
	p := &plan{}
	pkg := ""
	sc := bufio.NewScanner(f)
	for sc.Scan() {
		line := strings.TrimSpace(sc.Text())
		if line == "" || strings.HasPrefix(line, "#") {
			continue
		}
		word, rest := line, ""
		if i := strings.IndexAny(line, " \t"); i > 0 {
			word, rest = line[:i], strings.TrimSpace(line[i+1:])
		}
		switch word {
		case "property":
			p.Property = rest
		case "packages":
			p.Packages = append(p.Packages, strings.Fields(rest)...)
		case "context":
			p.Context = rest
		case "pkg":
			pkg = rest
		case "verify", "sweep":
			key := rest
			if pkg != "" && !strings.Contains(key, "/") {
				switch {
				case strings.HasPrefix(key, "(*"):
					key = "(*" + pkg + "." + key[2:]
				case strings.HasPrefix(key, "("):
					key = "(" + pkg + "." + key[1:]
				default:
					key = pkg + "." + key
				}
			}
			if word == "verify" {
				p.Verify = append(p.Verify, key)
			} else {
				p.Sweep = append(p.Sweep, key)
			}
		case "frozen":
			// frozen <TypeName>: fields of a constructed object of this type (of the current pkg) are never reassigned
			p.Frozen = append(p.Frozen, [2]string{pkg, rest})
		case "lemma":
			p.Lemmas = append(p.Lemmas, rest)
		case "thorough":
			// thorough <label> :: <shell command run in /verif; exit 0 = holds>
			parts := strings.SplitN(rest, "::", 2)
			if len(parts) != 2 {
				return nil, fmt.Errorf("%s: thorough <label> :: <command>", path)
			}
			p.Thorough = append(p.Thorough, [2]string{strings.TrimSpace(parts[0]), strings.TrimSpace(parts[1])})
		case "refine":
			// refine <implementation method> <interface method key>
			f := strings.Fields(rest)
			// refine <impl> <iface> [model ifaceFn=implFn ...]: the interface's uninterpreted spec functions are read as
			// the implementation's definitions (clients are verified for every interpretation, so one suffices)
			var model map[string]string
			if len(f) > 3 && f[2] == "model" {
				model = map[string]string{}
				for _, kv := range f[3:] {
					if i := strings.Index(kv, "="); i > 0 {
						model[kv[:i]] = kv[i+1:]
					}
				}
				f = f[:2]
			}
			if len(f) != 2 {
				return nil, fmt.Errorf("%s: refine <impl> <iface> [model a=b ...]", path)
			}
			key := f[0]
			if pkg != "" && !strings.Contains(key, "/") {
				switch {
				case strings.HasPrefix(key, "(*"):
					key = "(*" + pkg + "." + key[2:]
				case strings.HasPrefix(key, "("):
					key = "(" + pkg + "." + key[1:]
				default:
					key = pkg + "." + key
				}
			}
			p.Refines = append(p.Refines, [2]string{key, f[1]})
			if model != nil {
				if p.RefineModel == nil {
					p.RefineModel = map[string]map[string]string{}
				}
				p.RefineModel[key] = model
			}
		case "replay":
			f := strings.Fields(rest)
			if len(f) == 2 {
				p.Replay = append(p.Replay, [2]string{f[0], f[1]})
			}
		case "except":
			p.Except = append(p.Except, rest)
		case "assume":
			p.Assume = append(p.Assume, rest)
		case "notdecided":
			p.NotDecided = append(p.NotDecided, rest)
		default:
			return nil, fmt.Errorf("%s: unknown plan directive %q", path, word)
		}
	}
	return p, sc.Err()
}

type finding struct {
	Status     string `json:"status"` // known | fixed
	Property   string `json:"property"`
	Obligation string `json:"obligation"`
	Commit     string `json:"commit,omitempty"`
	What       string `json:"what"`
}

func checkCmd(args []string) {
	fs := flag.NewFlagSet("check", flag.ExitOnError)
	repo := fs.String("repo", "/repo", "repository root")
	root := fs.String("root", "/verif", "verification root")
	planPath := fs.String("plan", "", "plan file")
	tier := fs.String("tier", "quick", "quick|thorough")
	seed := fs.Int("seed", 0, "seed (only seeds nothing that affects a proof)")
	fs.Parse(args)
	start := time.Now()
	pl, err := readPlan(*planPath)
	if err != nil {
		fmt.Fprintln(os.Stderr, err)
		os.Exit(2)
	}
	timeout := 20
	if *tier == "thorough" {
		timeout = 60
	}
	prog, err := vc.Load(*repo, pl.Packages)
	if err != nil {
		fmt.Fprintln(os.Stderr, "load:", err)
		os.Exit(2)
	}
	if err := prog.LoadContracts(filepath.Join(*root, "specs")); err != nil {
		fmt.Fprintln(os.Stderr, "contracts:", err)
		os.Exit(2)
	}
	// one scratch directory per run: two runs of the same property (quick and thorough, or two trees) must not share files
	work := filepath.Join(*root, "work", fmt.Sprintf("%s-%d", pl.Property, os.Getpid()))
	os.RemoveAll(work)
	os.MkdirAll(work, 0o755)
	defer os.RemoveAll(work)

	type unit struct {
		presolved bool
		name string
		ex   *vc.Exec
		err  error
		pos  string
	}
	var units []*unit
	verified := map[string]bool{}
	run := func(key string, sweep bool) {
		u := &unit{name: key}
		units = append(units, u)
		fn := prog.FindFunc(key)
		if fn == nil {
			u.err = fmt.Errorf("function not found in the current tree")
			return
		}
		u.pos = prog.Fset.Position(fn.Pos()).String()
		ctr := prog.Spec.Contracts[vc.FuncKey(fn)]
		if ctr == nil && !sweep {
			u.err = fmt.Errorf("no contract for %s", key)
			return
		}
		u.ex = &vc.Exec{P: prog, Out: vc.NewScript(), Opt: vc.Options{Sweep: sweep}}
		u.err = u.ex.VerifyFunction(fn, ctr)
		verified[vc.FuncKey(fn)] = true
	}
	for _, key := range pl.Verify {
		run(key, false)
	}
	for _, key := range pl.Sweep {
		run(key, true)
	}
	for _, name := range pl.Lemmas {
		u := &unit{name: "lemma:" + name}
		units = append(units, u)
		var lem *vc.Lemma
		for _, l := range prog.Spec.Lemmas {
			if l.Name == name {
				lem = l
			}
		}
		if lem == nil {
			u.err = fmt.Errorf("lemma not found")
			continue
		}
		u.pos = lem.Src
		u.ex = &vc.Exec{P: prog, Out: vc.NewScript()}
		ctx := pl.Context
		if lem.Pkg != "" {
			ctx = lem.Pkg
		}
		var cp = prog.ByPath[ctx]
		if cp == nil {
			u.err = fmt.Errorf("lemma context package %q not loaded", ctx)
			continue
		}
		u.err = u.ex.VerifyLemma(lem, cp.Types)
	}
	for _, rf := range pl.Refines {
		u := &unit{name: "refine:" + rf[0]}
		units = append(units, u)
		u.pos = rf[1]
		u.ex = &vc.Exec{P: prog, Out: vc.NewScript(), SpecModel: pl.RefineModel[rf[0]]}
		u.err = u.ex.VerifyRefinement(rf[0], rf[1])
	}
	// solve
	{
		var wg sync.WaitGroup
		for i, u := range units {
			if u.ex == nil || u.err != nil || u.presolved {
				continue
			}
			wg.Add(1)
			go func(i int, u *unit) {
				defer wg.Done()
				vc.Solve(u.ex.Out, filepath.Join(work, fmt.Sprintf("u%02d", i)), timeout, 6, false)
				vc.PostProcess(u.ex.Out)
			}(i, u)
		}
		wg.Wait()
	}
	{
		// the lemmas the SMT prelude states as axioms are re-proved on every run
		pu := &unit{name: "prelude lemmas", presolved: true, pos: filepath.Join(*root, "specs", "prelude_lemmas")}
		pu.ex = &vc.Exec{P: prog, Out: vc.CheckPreludeLemmas(filepath.Join(*root, "specs", "prelude_lemmas"), timeout)}
		units = append(units, pu)
	}
	if len(pl.Frozen) > 0 {
		fu := &unit{name: "frozen fields", presolved: true, pos: *planPath}
		fsr := vc.NewScript()
		for _, fz := range pl.Frozen {
			o := &vc.Obligation{Name: "frozen:" + fz[0] + "." + fz[1], Func: "frozen fields", Kind: "scan", Expect: "unsat", Solver: "scan:ssa",
				Text: "no function of " + fz[0] + " assigns a field of an existing " + fz[1] + " or lets the address of a reference-typed field escape"}
			startT := time.Now()
			bad := prog.FrozenFields(fz[0], fz[1])
			o.TimeS = time.Since(startT).Seconds()
			if len(bad) == 0 {
				o.Status = "discharged"
			} else {
				o.Status = "failed"
				o.Detail = strings.Join(bad, "; ")
				o.Model = strings.Join(bad, "\n")
			}
			fsr.Obls = append(fsr.Obls, o)
		}
		fu.ex = &vc.Exec{P: prog, Out: fsr}
		units = append(units, fu)
	}
	if *tier == "thorough" && len(pl.Thorough) > 0 {
		// independent / bounded cross-checks (labelled as such in the evidence; never counted as deductive proof of the property)
		xu := &unit{name: "thorough cross-checks", presolved: true, pos: *planPath}
		xs := vc.NewScript()
		for _, tc := range pl.Thorough {
			o := &vc.Obligation{Name: "thorough:" + tc[0], Func: "thorough", Kind: "cross-check", Expect: "unsat", Text: "independent or bounded cross-check: " + tc[1]}
			startT := time.Now()
			ctx, cancel := context.WithTimeout(context.Background(), 25*time.Minute)
			cmd := exec.CommandContext(ctx, "sh", "-c", tc[1])
			cmd.Dir = *root
			cmd.Env = append(os.Environ(), "VERIF_REPO="+*repo)
			out, err := cmd.CombinedOutput()
			cancel()
			o.TimeS = time.Since(startT).Seconds()
			o.Solver = "external:" + tc[0]
			if err == nil {
				o.Status = "discharged"
			} else {
				o.Status = "failed"
				t := string(out)
				if len(t) > 3000 {
					t = t[len(t)-3000:]
				}
				o.Model = t
				o.Detail = err.Error()
			}
			xs.Obls = append(xs.Obls, o)
		}
		xu.ex = &vc.Exec{P: prog, Out: xs}
		units = append(units, xu)
	}
	if *tier == "thorough" {
		for i, u := range units {
			if u.ex == nil || u.err != nil || u.presolved {
				continue
			}
			vc.CrossCheck(u.ex.Out, filepath.Join(work, fmt.Sprintf("x%02d", i)), 30, 16)
		}
	}
	// findings
	var findings struct {
		Findings []finding `json:"findings"`
	}
	if b, err := os.ReadFile(filepath.Join(*root, "known_findings.json")); err == nil {
		json.Unmarshal(b, &findings)
	}
	known := func(name string) *finding {
		for i := range findings.Findings {
			f := &findings.Findings[i]
			if f.Status == "known" && f.Property == pl.Property && f.Obligation == name {
				return f
			}
		}
		return nil
	}
	// collect
	total, discharged, violations := 0, 0, 0
	var solverTime, maxTime float64
	type slowObl struct {
		name, solver string
		t            float64
	}
	var slow []slowObl
	bySolver := map[string]int{}
	var samples []map[string]any
	var funcs []map[string]any
	var failed []map[string]any
	var knownList []map[string]any
	cross := map[string]int{}
	outRoot := *root
	if *repo != "/repo" {
		// runs against a scratch copy (self-test, seeded changes) must not overwrite the real evidence
		outRoot = filepath.Join(os.TempDir(), "govc-scratch-out")
	}
	replayDir := filepath.Join(outRoot, "replays", pl.Property)
	os.MkdirAll(replayDir, 0o755)
	report := func(name, why string, o *vc.Obligation, u *unit) {
		if f := known(name); f != nil {
			fmt.Printf("KNOWN-FINDING: property=%s %s: %s\n", pl.Property, name, f.What)
			knownList = append(knownList, map[string]any{"obligation": name, "what": f.What})
			total-- // a recorded finding is reported separately and is not part of the proved obligations
			return
		}
		violations++
		path := filepath.Join(replayDir, sanitize(name)+".json")
		rep := map[string]any{"property": pl.Property, "obligation": name, "reason": why}
		suffix := " no-failing-input-found"
		if o != nil {
			rep["clause"] = o.Text
			rep["source"] = o.Src
			rep["solver_output"] = o.Detail
			rep["kind"] = o.Kind
			if o.Model != "" {
				rep["solver_model"] = o.Model
				rep["model_is_candidate_from_relaxed_context"] = o.Relaxed
			}
			vals := modelValues(o)
			if len(vals) > 0 {
				rep["model"] = vals
			}
			adapter := ""
			for _, r := range pl.Replay {
				if strings.Contains(name, r[0]) {
					adapter = r[1]
					break
				}
			}
			if adapter != "" {
				confirmed := false
				if input, ok := adapterInput(adapter, vals); ok && len(vals) > 0 {
					out, res := runReplay(*repo, *root, adapter, input)
					rep["replay"] = map[string]any{"adapter": adapter, "input_from": "solver model", "input": json.RawMessage(input), "result": res, "output": out}
					confirmed = res == "confirmed"
				}
				if !confirmed {
					// the solver gave no (confirmable) model: let the adapter search its boundary corpus on the real code
					out, res := runReplay(*repo, *root, adapter, `{"search":true}`)
					rep["replay_search"] = map[string]any{"adapter": adapter, "input_from": "adapter boundary corpus (not the solver)", "result": res, "output": out}
					confirmed = res == "confirmed"
				}
				if confirmed {
					suffix = ""
				}
			} else {
				rep["replay"] = map[string]any{"result": "no-adapter"}
			}
		}
		b, _ := json.MarshalIndent(rep, "", " ")
		os.WriteFile(path, b, 0o644)
		fmt.Printf("VIOLATION property=%s replay=%s obligation=%s%s\n", pl.Property, path, name, suffix)
		failed = append(failed, map[string]any{"obligation": name, "reason": why, "replay": path})
	}
	for _, u := range units {
		if u.err != nil {
			total++
			report(u.name+"/generate", u.err.Error(), nil, u)
			funcs = append(funcs, map[string]any{"function": u.name, "position": u.pos, "status": "not verified: " + u.err.Error()})
			continue
		}
		n, d := 0, 0
		for _, o := range u.ex.Out.Obls {
			skip := false
			for _, ex := range pl.Except {
				if strings.Contains(o.Name, ex) {
					skip = true
				}
			}
			if skip {
				continue
			}
			total++
			n++
			solverTime += o.TimeS
			if o.TimeS > maxTime {
				maxTime = o.TimeS
			}
			if o.Expect == "unsat" {
				slow = append(slow, slowObl{o.Name, o.Solver, o.TimeS})
			}
			if o.Status == "discharged" {
				discharged++
				d++
				bySolver[o.Solver]++
				if len(samples) < 6 && o.Kind != "frame" && o.Kind != "cover" && o.Kind != "canary" {
					samples = append(samples, map[string]any{"obligation": o.Name, "clause": o.Text, "solver": o.Solver, "time_s": round3(o.TimeS)})
				}
				if o.Cross != "" {
					cross[o.Cross]++
					if strings.Contains(o.Cross, "sat!") {
						report(o.Name, "cross-solver disagreement: "+o.Cross, o, u)
					}
				}
			} else {
				report(o.Name, o.Status+" ("+o.Detail+")", o, u)
			}
		}
		funcs = append(funcs, map[string]any{"function": u.name, "position": u.pos, "obligations": n, "discharged": d})
	}
	if total == 0 {
		fmt.Printf("VIOLATION property=%s replay=%s no obligations generated no-failing-input-found\n", pl.Property, filepath.Join(replayDir, "none.json"))
		violations++
	}
	// trusted base
	var trusted []string
	for k := range prog.Trusted {
		trusted = append(trusted, k)
	}
	for key, c := range prog.Spec.Contracts {
		if c.Kind == "func" && usedContract(prog, key) && !verified[key] {
			trusted = append(trusted, "assumed here (verified under another property or not at all): contract of "+key)
		}
		if c.Kind == "iface" && usedContract(prog, key) {
			trusted = append(trusted, "interface contract (implementations checked separately): "+key)
		}
	}
	trusted = append(trusted, "govc itself (VC generator), go/packages, go/types, go/ssa (x/tools v0.29.0)", "z3 5.1.0, z3 4.8.12, cvc5 1.0.3",
		"integers: exact machine arithmetic per Go type (wrap-around modelled); slice capacities < 2^62",
		"dropped by the extraction: logging/tracing/metrics calls, goroutine scheduling, channels, recover, memory limits, dependency bodies, termination")
	sort.Strings(trusted)
	sort.Slice(slow, func(i, j int) bool { return slow[i].t > slow[j].t })
	var slowest []map[string]any
	for i, x := range slow {
		if i >= 5 {
			break
		}
		slowest = append(slowest, map[string]any{"obligation": x.name, "solver": x.solver, "time_s": round3(x.t)})
	}
	ev := map[string]any{
		"property_id": pl.Property,
		"tier":        *tier,
		"seed":        *seed,
		"level":       "proof",
		"coverage": map[string]any{
			"obligations":        total,
			"discharged":         discharged,
			"checker_cmd":        fmt.Sprintf("bin/govc check -plan %s -tier %s (obligations raced on z3-new, z3, cvc5; timeout %ds each)", *planPath, *tier, timeout),
			"trusted_base":       trusted,
			"samples":            samples,
			"functions":          funcs,
			"by_solver":          bySolver,
			"solver_time_s":      round3(solverTime),
			"max_obligation_s":   round3(maxTime),
			"slowest":            slowest,
			"failed_obligations": failed,
			"known_findings":     knownList,
			"cross_solver":       cross,
			"not_decided":        pl.NotDecided,
		},
		"assumptions": append(append([]string{}, pl.Assume...), pl.NotDecided...),
		"wall_s":      round3(time.Since(start).Seconds()),
		"violations":  violations,
	}
	os.MkdirAll(filepath.Join(outRoot, "evidence"), 0o755)
	b, _ := json.MarshalIndent(ev, "", " ")
	os.WriteFile(filepath.Join(outRoot, "evidence", pl.Property+".json"), b, 0o644)
	fmt.Printf("%s %s: %d obligations, %d discharged, %d violations, %.1fs\n", pl.Property, *tier, total, discharged, violations, time.Since(start).Seconds())
	if violations > 0 {
		os.RemoveAll(work) // os.Exit skips the deferred removal
		os.Exit(1)
	}
}

func usedContract(p *vc.Program, key string) bool {
	return p.Trusted["used contract: "+key]
}

func round3(f float64) float64 { return float64(int(f*1000+0.5)) / 1000 }

func sanitize(s string) string {
	re := regexp.MustCompile(`[^A-Za-z0-9_.:-]+`)
	s = re.ReplaceAllString(s, "_")
	if len(s) > 150 {
		s = s[len(s)-150:]
	}
	return s
}

// modelValues pairs the observed sub-expressions of the clause with the solver's values.
func modelValues(o *vc.Obligation) map[string]string {
	out := map[string]string{}
	if o.Model == "" {
		return out
	}
	txt := o.Model
	i := strings.Index(txt, "((")
	if i < 0 {
		return out
	}
	pairs := parsePairs(txt[i:])
	nObs := len(o.Obs)
	nIn := len(o.Inputs)
	for k, pv := range pairs {
		idx := k - (nIn - nObs)
		if idx >= 0 && idx < nObs {
			out[o.Obs[idx].Text] = pv[1]
		} else {
			out[pv[0]] = pv[1]
		}
	}
	return out
}

// parsePairs parses "((t v) (t v) ...)".
func parsePairs(s string) [][2]string {
	var out [][2]string
	depth := 0
	start := -1
	for i := 0; i < len(s); i++ {
		switch s[i] {
		case '|':
			j := strings.IndexByte(s[i+1:], '|')
			if j < 0 {
				return out
			}
			i += j + 1
		case '"':
			j := strings.IndexByte(s[i+1:], '"')
			if j < 0 {
				return out
			}
			i += j + 1
		case '(':
			depth++
			if depth == 2 {
				start = i
			}
		case ')':
			if depth == 2 && start >= 0 {
				inner := s[start+1 : i]
				if t, v, ok := splitTermValue(inner); ok {
					out = append(out, [2]string{t, v})
				}
				start = -1
			}
			depth--
			if depth == 0 {
				return out
			}
		}
	}
	return out
}

func splitTermValue(s string) (string, string, bool) {
	s = strings.TrimSpace(s)
	depth := 0
	for i := 0; i < len(s); i++ {
		switch s[i] {
		case '|':
			j := strings.IndexByte(s[i+1:], '|')
			if j < 0 {
				return "", "", false
			}
			i += j + 1
		case '"':
			j := strings.IndexByte(s[i+1:], '"')
			if j < 0 {
				return "", "", false
			}
			i += j + 1
		case '(':
			depth++
		case ')':
			depth--
		case ' ', '\n', '\t':
			if depth == 0 {
				return strings.TrimSpace(s[:i]), strings.TrimSpace(s[i+1:]), true
			}
		}
	}
	return "", "", false
}

func smtInt(v string) (string, bool) {
	v = strings.TrimSpace(v)
	if m := regexp.MustCompile(`^\(-\s*(\d+)\)$`).FindStringSubmatch(v); m != nil {
		return "-" + m[1], true
	}
	if regexp.MustCompile(`^\d+$`).MatchString(v) {
		return v, true
	}
	return "", false
}

func pick(vals map[string]string, patterns ...string) (string, bool) {
	for _, p := range patterns {
		re := regexp.MustCompile(p)
		var keys []string
		for k := range vals {
			keys = append(keys, k)
		}
		sort.Strings(keys)
		for _, k := range keys {
			if re.MatchString(k) {
				if n, ok := smtInt(vals[k]); ok {
					return n, true
				}
			}
		}
	}
	return "", false
}

// adapterInput builds the JSON input of a replay adapter from model values.
func adapterInput(adapter string, vals map[string]string) (string, bool) {
	dom := func() string {
		p, ok := pick(vals, `^prefix4\(`)
		if !ok {
			return "[1,0,0,0]"
		}
		var n uint64
		fmt.Sscan(p, &n)
		return fmt.Sprintf("[%d,%d,%d,%d]", n&255, (n>>8)&255, (n>>16)&255, (n>>24)&255)
	}
	opt := func(s string, ok bool) string {
		if !ok {
			return "null"
		}
		return s
	}
	switch adapter {
	case "rules_att":
		s, ok1 := pick(vals, `^req\.Source\.Epoch$`, `Source\.Epoch`)
		t, ok2 := pick(vals, `^req\.Target\.Epoch$`, `Target\.Epoch`)
		if !ok1 || !ok2 {
			return "", false
		}
		S, okS := pick(vals, `^old\(.*(SourceEpoch|wmAttS)`)
		T, okT := pick(vals, `^old\(.*(TargetEpoch|wmAttT)`)
		if !okS || !okT {
			S, T, okS, okT = "", "", false, false
		}
		return fmt.Sprintf(`{"S":%s,"T":%s,"s":"%s","t":"%s","domain":%s}`, opt(S, okS), opt(T, okT), s, t, dom()), true
	case "process_f5":
		return `{}`, true
	case "process_vvec":
		th, ok1 := pick(vals, `threshold`)
		ln, ok2 := pick(vals, `^len\(vVec\)$`, `len\(.*VVec`)
		if ok1 && ok2 {
			return fmt.Sprintf(`{"threshold":%s,"vveclen":%s}`, th, ln), true
		}
		return `{"search":true}`, true
	case "rules_prop":
		slot, ok := pick(vals, `^req\.Slot$`, `\.Slot$`)
		if !ok {
			return "", false
		}
		L, okL := pick(vals, `^old\(.*(wmPropL|\.Slot)`)
		d := dom()
		if _, has := pick(vals, `^prefix4\(`); !has {
			d = "[0,0,0,0]"
		}
		return fmt.Sprintf(`{"L":%s,"slot":"%s","domain":%s}`, opt(L, okL), slot, d), true
	}
	return "", false
}

var adapterPkg = map[string][2]string{
	"rules_att":  {"rules/standard", "TestVerifReplayRulesAtt"},
	"rules_prop": {"rules/standard", "TestVerifReplayRulesProp"},
	"regexify":   {"services/checker/static", "TestVerifReplayRegexify"},
	"process_vvec": {"services/process/standard", "TestVerifReplayProcessVVec"},
	"process_f5":   {"services/process/standard", "TestVerifReplayProcessF5"},
	"import_merge": {".", "TestVerifReplayImportMerge"},
}

// runReplay injects the adapter as an in-package test through -overlay (nothing is written to the repo).
func runReplay(repo, root, adapter, input string) (string, string) {
	info, ok := adapterPkg[adapter]
	if !ok {
		return "", "no-adapter"
	}
	tmp, err := os.MkdirTemp("", "govc-replay")
	if err != nil {
		return err.Error(), "error"
	}
	defer os.RemoveAll(tmp)
	src, err := os.ReadFile(filepath.Join(root, "replay", adapter+".go.tmpl"))
	if err != nil {
		return err.Error(), "error"
	}
	testFile := filepath.Join(tmp, "zz_verif_replay_test.go")
	os.WriteFile(testFile, src, 0o644)
	ov := map[string]any{"Replace": map[string]string{filepath.Join(repo, info[0], "zz_verif_replay_test.go"): testFile}}
	b, _ := json.Marshal(ov)
	ovFile := filepath.Join(tmp, "ov.json")
	os.WriteFile(ovFile, b, 0o644)
	cmd := exec.Command("go", "test", "-overlay", ovFile, "-vet=off", "-timeout", "60s", "-count=1", "-v", "-run", "^"+info[1]+"$", "./"+info[0]+"/")
	cmd.Dir = repo
	cmd.Env = append(os.Environ(), "GOFLAGS=-mod=mod", "GOPROXY=off", "GOSUMDB=off", "GOTOOLCHAIN=local", "VERIF_REPLAY_INPUT="+input)
	out, _ := cmd.CombinedOutput()
	var lines []string
	res := "not-reproduced"
	for _, l := range strings.Split(string(out), "\n") {
		if strings.HasPrefix(l, "REPLAY") {
			lines = append(lines, l)
		}
		if strings.HasPrefix(l, "REPLAY-RESULT confirmed") {
			res = "confirmed"
		}
	}
	if len(lines) == 0 {
		t := string(out)
		if len(t) > 2000 {
			t = t[len(t)-2000:]
		}
		return t, "error"
	}
	return strings.Join(lines, "\n"), res
}
