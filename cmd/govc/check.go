package main

func checkCmd(args []string) {}
